//go:build verif

package reftable

// Harness API.  Under the symbolic engine (symgo) every function in this file
// whose name starts with "Verif" is intercepted; the bodies below are the
// native implementations used when a harness is replayed on a concrete input
// vector with `go test -tags verif -overlay ...`.

import (
	"runtime"
	"fmt"
	"hash"
	"hash/fnv"
	"io/ioutil"
	"os"
	"reflect"
	"sort"
	"strings"
)

type verifExhausted struct{}
type verifDiverged struct{ why string }

// verifCFault: the C code under test crashed, aborted or tripped the sanitizer (C15).
type verifCFault struct{ why string }
type verifAssumeFailed struct{}

// verifAllocExceeded: the code under test allocated more than the budget the harness stated (C18).
type verifAllocExceeded struct{ bytes uint64 }
type verifAssertFailed struct{ label string }

var verifNative struct {
	vec      []int64
	pos      int
	tier     int
	covers   []string
	observes []string
	dirs     []string
	monitors map[string]bool
	faultOpen int // > 0: the n-th following os.Open of the code under test fails
	faultRead int // likewise for ioutil.ReadFile
	allocBase, allocBudget uint64
	monitorHits []string
	frozen   []interface{}
}

func verifReset(vec []int64, tier int) {
	verifNative.vec = vec
	verifNative.pos = 0
	verifNative.tier = tier
	verifNative.covers = nil
	verifNative.observes = nil
	verifNative.frozen = nil
	verifNative.monitors = map[string]bool{}
	verifNative.monitorHits = nil
	verifNative.faultOpen = 0
	verifNative.faultRead = 0
	verifNative.allocBudget = 0
	verifSchedReset()
}

func verifCleanup() {
	for _, d := range verifNative.dirs {
		os.RemoveAll(d)
	}
	verifNative.dirs = nil
}

func verifNext() int64 {
	if verifNative.pos >= len(verifNative.vec) {
		panic(verifExhausted{})
	}
	v := verifNative.vec[verifNative.pos]
	verifNative.pos++
	return v
}

// VerifU64 returns an arbitrary value.
func VerifU64() uint64 { return uint64(verifNext()) }
func VerifU32() uint32 { return uint32(verifNext()) }
func VerifU16() uint16 { return uint16(verifNext()) }
func VerifU8() byte    { return byte(verifNext()) }
func VerifBool() bool  { return verifNext()&1 != 0 }

// VerifIntRange returns an arbitrary int in [lo,hi]; the engine case-splits.
func VerifIntRange(lo, hi int) int {
	v := int(verifNext())
	if v < lo || v > hi {
		panic(verifDiverged{fmt.Sprintf("range value %d outside [%d,%d]", v, lo, hi)})
	}
	return v
}

// VerifChoose returns an arbitrary int in [0,n).
func VerifChoose(n int) int {
	v := int(verifNext())
	if v < 0 || v >= n {
		panic(verifDiverged{fmt.Sprintf("choice %d outside [0,%d)", v, n)})
	}
	return v
}

// VerifTier is 0 for the quick tier and 1 for the thorough tier.
func VerifTier() int { return verifNative.tier }

// VerifSymbolic reports whether the harness runs under the symbolic engine.
func VerifSymbolic() bool { return false }

func VerifAssume(b bool) {
	if !b {
		panic(verifAssumeFailed{})
	}
}

func VerifAssert(b bool, label string) {
	if !b {
		panic(verifAssertFailed{label})
	}
}

func VerifCover(label string) { verifNative.covers = append(verifNative.covers, label) }

func VerifObserve(label string, vals ...interface{}) {
	s := label
	for _, v := range vals {
		s += " " + fmt.Sprint(v)
	}
	verifNative.observes = append(verifNative.observes, s)
}

// VerifTempDir returns the stack directory: "/d" in the model filesystem, a
// fresh temporary directory natively.
func VerifTempDir() string {
	d, err := ioutil.TempDir("", "verif-replay-")
	if err != nil {
		panic(err)
	}
	verifNative.dirs = append(verifNative.dirs, d)
	verifSched.dir = d
	return d
}

// VerifMaxSteps raises the engine's per-path instruction budget (for one long concrete computation).
func VerifMaxSteps(n int) {}

// VerifStepBudget declares that the code that follows must finish within n
// interpreted instructions; exceeding it is reported as a hang.  Natively the
// replay driver's wall-clock limit plays that role.
func VerifStepBudget(n int) {}

// VerifFaultOpen injects one I/O fault: the n-th os.Open (n >= 1) that the
// code under test performs from now on fails with "too many open files".
func VerifFaultOpen(n int) { verifNative.faultOpen = n }

// VerifFaultReadFile: the n-th ioutil.ReadFile (n >= 1) that the code under
// test performs from now on fails with an input/output error.
func VerifFaultReadFile(n int) { verifNative.faultRead = n }

// VerifAllocBudget declares that the code running until VerifAllocEnd may
// allocate at most n bytes in total ("allocates without bound", C18).  The
// engine adds up the sizes of the slices the interpreted code makes and of
// what the inflater hands out; natively the runtime's allocation counter is
// read at both ends.
func VerifAllocBudget(n int) {
	var ms runtime.MemStats
	runtime.ReadMemStats(&ms)
	verifNative.allocBase, verifNative.allocBudget = ms.TotalAlloc, uint64(n)
}

// VerifAllocEnd ends the region opened by VerifAllocBudget.
func VerifAllocEnd() {
	if verifNative.allocBudget == 0 {
		return
	}
	var ms runtime.MemStats
	runtime.ReadMemStats(&ms)
	used := ms.TotalAlloc - verifNative.allocBase
	budget := verifNative.allocBudget
	verifNative.allocBudget = 0
	if used > budget {
		panic(verifAllocExceeded{used})
	}
}

// VerifQuiet runs f without recording its filesystem steps in the trace that
// is compared between the model and the real filesystem (for harness-level
// inspection of the directory).
func VerifQuiet(f func()) {
	old := verifSched.quiet
	verifSched.quiet = true
	f()
	verifSched.quiet = old
}

// VerifShared runs f(0) and f(1), which must return the same digest: one after
// the other under the engine (which also flags any write to frozen state),
// concurrently in two goroutines - many rounds - natively, where the replay is
// built with -race.
func VerifShared(f func(i int) string) {
	verifSched.quiet = true // the step trace is not goroutine-safe (and not compared here)
	defer func() { verifSched.quiet = false }()
	// one sequential run first: state that the code under test initialises
	// lazily on first use shows up as a change of the frozen object graph
	// (deterministic, where a race report would depend on which goroutine
	// gets there first)
	h0 := verifStateHash()
	want := f(0)
	if verifStateHash() != h0 {
		panic(verifAssertFailed{"shared-state-written-by-a-read"})
	}
	for round := 0; round < 200; round++ {
		var a, b string
		done := make(chan struct{})
		go func() { b = f(1); close(done) }()
		a = f(0)
		<-done
		if a != want || b != want {
			panic(verifAssertFailed{"concurrent-reads-differ"})
		}
	}
}

// VerifFreeze marks everything reachable from v as shared between readers
// (C19 frame condition).  Natively the object is remembered so that
// VerifShared can compare its state before and after a read.
func VerifFreeze(v interface{}) { verifNative.frozen = append(verifNative.frozen, v) }

// verifStateHash digests the object graphs of the frozen values: the fields of
// this package's types, followed through pointers, slices, maps and
// interfaces; values of other packages' struct types (files, mutexes) are opaque.
func verifStateHash() uint64 {
	h := fnv.New64a()
	seen := map[uintptr]bool{}
	for _, v := range verifNative.frozen {
		verifWalk(reflect.ValueOf(v), h, seen, 0)
	}
	return h.Sum64()
}

func verifWalk(v reflect.Value, h hash.Hash64, seen map[uintptr]bool, depth int) {
	if depth > 64 || !v.IsValid() {
		return
	}
	switch v.Kind() {
	case reflect.Ptr:
		if v.IsNil() {
			h.Write([]byte{0})
			return
		}
		h.Write([]byte{1})
		p := v.Pointer()
		if seen[p] {
			return
		}
		seen[p] = true
		verifWalk(v.Elem(), h, seen, depth+1)
	case reflect.Interface:
		if v.IsNil() {
			h.Write([]byte{2})
			return
		}
		h.Write([]byte(v.Elem().Type().String()))
		verifWalk(v.Elem(), h, seen, depth+1)
	case reflect.Struct:
		if !strings.Contains(v.Type().PkgPath(), "reftable") {
			h.Write([]byte(v.Type().String()))
			return
		}
		for i := 0; i < v.NumField(); i++ {
			verifWalk(v.Field(i), h, seen, depth+1)
		}
	case reflect.Slice:
		if v.IsNil() {
			h.Write([]byte{3})
			return
		}
		fmt.Fprintf(h, "[%d]", v.Len())
		for i := 0; i < v.Len(); i++ {
			verifWalk(v.Index(i), h, seen, depth+1)
		}
	case reflect.Array:
		for i := 0; i < v.Len(); i++ {
			verifWalk(v.Index(i), h, seen, depth+1)
		}
	case reflect.Map:
		if v.IsNil() {
			h.Write([]byte{4})
			return
		}
		var keys []string
		vals := map[string]reflect.Value{}
		it := v.MapRange()
		for it.Next() {
			k := fmt.Sprint(verifScalar(it.Key()))
			keys = append(keys, k)
			vals[k] = it.Value()
		}
		sort.Strings(keys)
		for _, k := range keys {
			h.Write([]byte(k))
			verifWalk(vals[k], h, seen, depth+1)
		}
	case reflect.Func, reflect.Chan, reflect.UnsafePointer:
		if v.IsNil() {
			h.Write([]byte{5})
		} else {
			h.Write([]byte{6})
		}
	default:
		fmt.Fprint(h, verifScalar(v), ";")
	}
}

func verifScalar(v reflect.Value) interface{} {
	switch v.Kind() {
	case reflect.Bool:
		return v.Bool()
	case reflect.Int, reflect.Int8, reflect.Int16, reflect.Int32, reflect.Int64:
		return v.Int()
	case reflect.Uint, reflect.Uint8, reflect.Uint16, reflect.Uint32, reflect.Uint64, reflect.Uintptr:
		return v.Uint()
	case reflect.Float32, reflect.Float64:
		return v.Float()
	case reflect.String:
		return v.String()
	}
	return v.Kind().String()
}

// ---------- helpers shared by harnesses (ordinary Go, interpreted) ----------

func symBytes(n int) []byte {
	b := make([]byte, n)
	for i := range b {
		b[i] = VerifU8()
	}
	return b
}

func symString(n int) string { return string(symBytes(n)) }

func bytesEq(a, b []byte) bool {
	if len(a) != len(b) {
		return false
	}
	for i := range a {
		if a[i] != b[i] {
			return false
		}
	}
	return true
}
