//go:build verif

package reftable

import (
	"bytes"
	"compress/zlib"
	"encoding/binary"
	"hash/crc32"
	"math"
)

// File-level C18 harnesses: a valid table written by the real writer is
// damaged (fields made arbitrary, bytes replaced, file truncated) and then
// opened and read through every public read entry point.  The footer CRC is
// "repaired" by construction: symbolic bytes make the checksum an
// uninterpreted value the solver may choose.

// hostileBase writes a small concrete table; shape selects its layout.
func hostileBase(shape int) []byte {
	cfg := Config{BlockSize: 64, RestartInterval: 1}
	switch shape {
	case 0: // unaligned, 3 refs (two ref blocks, ref index, object index)
		cfg.Unaligned = true
	case 1: // aligned
	case 2: // unaligned with a log section
		cfg.Unaligned = true
		cfg.BlockSize = 96
	case 3: // sha256, unaligned
		cfg.Unaligned = true
		cfg.HashID = SHA256ID
		cfg.BlockSize = 96
	}
	hs := 20
	if cfg.HashID == SHA256ID {
		hs = 32
	}
	var buf bytes.Buffer
	w, err := NewWriter(&buf, &cfg)
	if err != nil {
		panic(err)
	}
	w.SetLimits(1, 2)
	for i := 0; i < 3; i++ {
		v := make([]byte, hs)
		v[0] = byte(i + 1)
		if err := w.AddRef(&RefRecord{RefName: string([]byte{'a' + byte(i)}), UpdateIndex: 1, Value: v}); err != nil {
			panic(err)
		}
	}
	if shape == 2 {
		l := LogRecord{RefName: "a", UpdateIndex: 1, Time: 5, New: make([]byte, hs), Old: make([]byte, hs), Message: "m\n"}
		if err := w.AddLog(&l); err != nil {
			panic(err)
		}
	}
	if err := w.Close(); err != nil {
		panic(err)
	}
	return buf.Bytes()
}

// repairCRC recomputes the footer checksum after an edit (only the footer is
// checksummed, so an attacker can always do this).
func repairCRC(data []byte) {
	if len(data) < 5 {
		return
	}
	fs := footerSize(int(data[4]))
	if data[4] != 1 && data[4] != 2 || len(data) < fs {
		return
	}
	crc := crc32.ChecksumIEEE(data[len(data)-fs : len(data)-4])
	binary.BigEndian.PutUint32(data[len(data)-4:], crc)
}

// readEverything drives every public read entry point; nothing may panic or hang.
func readEverything(data []byte) { readEverythingKey(data, symString(1)) }

func readEverythingKey(data []byte, key string) {
	repairCRC(data)
	VerifStepBudget(400000)
	rd, err := NewReader(&ByteBlockSource{data}, "h")
	if err != nil {
		VerifCover("rejected")
		return
	}
	scanRefs := func(it *Iterator) {
		for i := 0; i < 2*len(data); i++ {
			var r RefRecord
			ok, err := it.NextRef(&r)
			if !ok || err != nil {
				return
			}
		}
		VerifAssert(false, "more-ref-records-than-bytes")
	}
	if it, err := rd.SeekRef(""); err == nil {
		scanRefs(it)
	}
	if it, err := rd.SeekRef(key); err == nil {
		scanRefs(it)
	}
	if it, err := rd.SeekLog("", math.MaxUint64); err == nil {
		for i := 0; i < 2*len(data); i++ {
			var l LogRecord
			ok, err := it.NextLog(&l)
			if !ok || err != nil {
				break
			}
		}
	}
	if it, err := rd.SeekLog("a", 1); err == nil {
		var l LogRecord
		it.NextLog(&l)
	}
	oid := make([]byte, rd.hashSize)
	oid[0] = 1
	if it, err := rd.RefsFor(oid); err == nil {
		scanRefs(it)
	}
	// the same bytes behind a merged view (what a stack hands out)
	if m, err := NewMerged([]Table{rd}, rd.HashID()); err == nil {
		if it, err := m.SeekRef(key); err == nil {
			scanRefs(it)
		}
		if it, err := m.RefsFor(oid); err == nil {
			scanRefs(it)
		}
		if it, err := m.SeekLog("a", 1); err == nil {
			var l LogRecord
			it.NextLog(&l)
		}
	}
	VerifCover("opened")
}

// Harness_C18_file_footer: arbitrary footer position fields (checksum repaired).
// bounds: 4 base tables (unaligned / aligned / with log section / sha256; 3 refs, block size 64 or 96); one of the five 64-bit position fields of the footer is arbitrary in its low 8 bits (thorough: low 24 bits); larger values only lead beyond the end of these files
// covers: opened
func Harness_C18_file_footer() {
	data := hostileBase(VerifChoose(4))
	version := int(data[4])
	foot := len(data) - footerSize(version) + headerSize(version)
	f := VerifChoose(5)
	lo := 7 // quick: the low 8 bits of one field (every position of these small files below 256)
	if VerifTier() > 0 {
		lo = 5 // thorough: the low 24 bits
	}
	for i := lo; i < 8; i++ {
		data[foot+8*f+i] = VerifU8()
	}
	readEverything(data)
}

// Harness_C18_file_header: arbitrary block size / update index fields in header and footer copy, arbitrary version byte.
// bounds: the same base tables; header bytes 4..24 (version, block size, min and max update index), or the 4-byte hash id of the version 2 table, arbitrary, identical in the footer copy
// covers: opened, rejected
func Harness_C18_file_header() {
	data := hostileBase(VerifChoose(4))
	version := int(data[4])
	foot := len(data) - footerSize(version)
	lo, hi := 4, 8
	switch VerifChoose(3) {
	case 1:
		lo, hi = 8, 24
	case 2:
		// the hash id of a version 2 header (version 1 has none: nothing to edit)
		if version != 2 {
			return
		}
		lo, hi = 24, 28
	}
	for i := lo; i < hi; i++ {
		b := VerifU8()
		data[i] = b
		data[foot+i] = b
	}
	readEverything(data)
}

// Harness_C18_file_bytes: up to two arbitrary bytes anywhere in the block area, and truncation.
// bounds: the same base tables; one or two byte positions (every position of the first 3 blocks' headers, restart tables and first records: offsets 24..24+40 and the 12 bytes before the footer; thorough: every position) take arbitrary values; or the file is cut to any length
// covers: opened, rejected
func Harness_C18_file_bytes() {
	data := hostileBase(VerifChoose(4))
	version := int(data[4])
	body := len(data) - footerSize(version)
	switch VerifChoose(3) {
	case 0: // truncation to any length (footer then mismatches or is short)
		data = data[:VerifIntRange(0, len(data)-1)]
	case 1:
		var p int
		if VerifTier() > 0 {
			p = VerifIntRange(headerSize(version), body-1)
		} else if VerifChoose(2) == 0 {
			p = headerSize(version) + VerifIntRange(0, 40)
		} else {
			p = body - 1 - VerifIntRange(0, 11)
		}
		// positions inside a log block's deflate stream are left alone
		// (hostile deflate streams are outside reach, see DESIGN.md)
		fo := len(data) - footerSize(version) + headerSize(version)
		logOff := int(binary.BigEndian.Uint64(data[fo+24:]))
		if p >= 0 && p < body && (logOff == 0 || p < logOff+4) {
			data[p] = VerifU8()
		}
	case 2: // block length field + restart count of the first block
		hs := headerSize(version)
		data[hs+1], data[hs+2], data[hs+3] = VerifU8(), VerifU8(), VerifU8()
	}
	readEverything(data)
}

// Harness_C18_file_index: arbitrary child positions in index blocks of a multi-level index (an entry pointing at its own block, forwards, at a data block of another section, beyond the file).
// bounds: base table: 40 refs, block size 64, restart interval 2 (two index levels) and its unaligned variant with an object index; one index record of one index block (every index block, first or last record) is redirected to any other block start of the file (its own block, a sibling, a block of another level or section), to the footer or beyond the end, whenever the new position's varint has the same length; then every read entry point with a symbolic 2-byte key
// covers: opened
func Harness_C18_file_index() {
	sh := pickShape(3)
	if VerifChoose(2) == 1 {
		sh.cfg.Unaligned = true
	}
	refs, _ := buildShape(sh)
	data, ok := writeTable(sh.cfg, 1, 4, refs, nil)
	VerifAssert(ok, "writer-accepts")
	// locate the index blocks with the independent decoder (concrete, cheap)
	t := specDecodeTable(data)
	VerifAssert(t.ok, "base-decodes")
	var idx []int
	for i := range t.blocks {
		if t.blocks[i].typ == 'i' {
			idx = append(idx, i)
		}
	}
	VerifAssert(len(idx) >= 3, "base-has-two-index-levels")
	blk := t.blocks[idx[VerifChoose(len(idx))]]
	// walk to the chosen record's position varint
	p := int(blk.pos) + 4
	nrec := len(blk.recs)
	target := 0
	if VerifChoose(2) == 1 {
		target = nrec - 1
	}
	// the new child position: any block start of the file (including the index
	// block itself and later blocks), the footer, or just beyond
	cands := []uint64{uint64(len(data)), uint64(len(data)) - 68}
	for i := range t.blocks {
		cands = append(cands, t.blocks[i].pos)
	}
	newPos := cands[VerifChoose(len(cands))]
	var enc [10]byte
	encLen := specPutVarint(enc[:], newPos)
	for r := 0; r <= target; r++ {
		_, n1 := specVarint(data[p:])
		p += n1
		sv, n2 := specVarint(data[p:])
		p += n2 + int(sv>>3)
		_, n3 := specVarint(data[p:])
		if r == target {
			if n3 != encLen {
				return // would change the record's length: not a same-size edit
			}
			copy(data[p:], enc[:encLen])
		}
		p += n3
	}
	readEverythingKey(data, symString(2))
}

// Harness_C18_file_logbomb: a log block whose deflate stream inflates to far more than the size its header declares is refused without inflating it all (allocation stays proportional to the file and to the declared block size).
// bounds: the base table with a log section, its log block replaced by: block header 'g' with declared size in {its true size, 6, 40, 1000, 0xFFFFFF}, followed by a genuine deflate stream of 4 MiB of zero bytes (about 4 KiB) or by the genuine stream of the original block; the file header's block size is the original one or 0xFFFFFF (so that one fetch covers the stream); every read entry point; allocation budget 1 MiB + 16 x (file size + declared size)
// assumes: real zlib on both sides (the stream is concrete)
// covers: opened
func Harness_C18_file_logbomb() {
	data := hostileBase(2)
	version := int(data[4])
	fo := len(data) - footerSize(version)
	logOff := int(binary.BigEndian.Uint64(data[fo+headerSize(version)+24:]))
	VerifAssert(logOff > 0 && logOff < fo, "base-has-log-section")
	orig := append([]byte{}, data[logOff:fo]...)
	trueSize := int(orig[1])<<16 | int(orig[2])<<8 | int(orig[3])
	var stream []byte
	if VerifChoose(2) == 0 {
		var zb bytes.Buffer
		zw, _ := zlib.NewWriterLevel(&zb, 9)
		zw.Write(make([]byte, 4<<20))
		zw.Close()
		stream = zb.Bytes()
	} else {
		stream = orig[4:]
	}
	declared := []int{trueSize, 6, 40, 1000, 0xFFFFFF}[VerifChoose(5)]
	blk := []byte{'g', byte(declared >> 16), byte(declared >> 8), byte(declared)}
	blk = append(blk, stream...)
	file := append([]byte{}, data[:logOff]...)
	file = append(file, blk...)
	file = append(file, data[fo:]...)
	if VerifChoose(2) == 1 {
		// a table block size large enough that the first fetch covers the whole stream
		nfo := len(file) - footerSize(version)
		for _, base := range []int{0, nfo} {
			file[base+5], file[base+6], file[base+7] = 0xff, 0xff, 0xff
		}
	}
	VerifAllocBudget(1<<20 + 16*(len(file)+declared))
	readEverything(file)
	VerifAllocEnd()
}
