//go:build verif

package reftable

import (
	"io/ioutil"
	"os"
	"path/filepath"
)

// C17: auto-compaction segment choice and stack depth.

func specBitLen(v uint64) int {
	n := 0
	for i := 0; i < 64; i++ {
		if v>>uint(i) != 0 {
			n = i + 1
		}
	}
	return n
}

// Harness_C17_log2: log2 is the position of the highest set bit (0 for 0).
// bounds: every 64-bit value
// covers: done
func Harness_C17_log2() {
	v := VerifU64()
	want := 0
	if v != 0 {
		want = specBitLen(v) - 1
	}
	VerifAssert(log2(v) == want, "log2")
	VerifCover("done")
}

func symSize(class int) uint64 {
	base := uint64(1) << uint(class)
	return base + (uint64(VerifU16()) & (base - 1))
}

// Harness_C17_chooser: the suggested segment is a contiguous range of >= 2 tables, and nothing is suggested exactly when no two adjacent tables share a power-of-two size class.
// bounds: size vectors of length 1..5 (thorough 1..6); each size = 2^c + m with class c in 0..3 chosen and mantissa m symbolic (every byte size of those classes; sums carrying into the next class are the solver's choice)
// covers: nothing-to-do, segment
func Harness_C17_chooser() {
	n := VerifIntRange(1, 5+VerifTier())
	sizes := make([]uint64, n)
	classes := make([]int, n)
	for i := range sizes {
		classes[i] = VerifChoose(4)
		sizes[i] = symSize(classes[i])
	}
	adjacent := false
	for i := 0; i+1 < n; i++ {
		if classes[i] == classes[i+1] {
			adjacent = true
		}
	}
	seg := suggestCompactionSegment(sizes)
	VerifAssert((seg == nil) == !adjacent, "nothing-to-do-iff-no-adjacent-pair")
	if seg == nil {
		VerifCover("nothing-to-do")
		return
	}
	VerifAssert(seg.start >= 0 && seg.start < seg.end && seg.end <= n, "segment-in-range")
	VerifAssert(seg.end-seg.start >= 2, "segment-at-least-two")
	// compacting it strictly reduces the table count
	VerifAssert(n-(seg.end-seg.start)+1 < n, "progress")
	var sum uint64
	for i := seg.start; i < seg.end; i++ {
		sum += sizes[i]
	}
	VerifAssert(seg.bytes == sum, "segment-bytes")
	VerifCover("segment")
}

// Harness_C17_depth: N transactions of one (symbolic) byte size: the stack never exceeds 2*log2(N) tables and compaction rewrites at most N*log2(N) transactions' worth of entries.
// bounds: N <= 24 (thorough 48) adds; table size s = 2^c + m, c in {0,3,6,10} chosen, m symbolic; merged table size = sum of its inputs (additive size model; real payload sizes are outside reach, see DESIGN.md)
// assumes: the size of a compacted table is the sum of the sizes of its inputs
// covers: done
func Harness_C17_depth() {
	s := symSize([]int{0, 3, 6, 10}[VerifChoose(4)])
	maxN := 24 + 24*VerifTier()
	var sizes []uint64
	var cnt []int
	cost := 0
	for n := 1; n <= maxN; n++ {
		sizes = append(sizes, s)
		cnt = append(cnt, 1)
		if seg := suggestCompactionSegment(sizes); seg != nil {
			var sum uint64
			c := 0
			for i := seg.start; i < seg.end; i++ {
				sum += sizes[i]
				c += cnt[i]
			}
			cost += c
			sizes = append(append(append([]uint64{}, sizes[:seg.start]...), sum), sizes[seg.end:]...)
			cnt = append(append(append([]int{}, cnt[:seg.start]...), c), cnt[seg.end:]...)
		}
		if n >= 2 {
			l := specBitLen(uint64(n)) - 1
			VerifAssert(len(sizes) <= 2*l, "depth-bound")
			VerifAssert(cost <= n*l, "rewrite-bound")
		}
	}
	VerifCover("done")
}

// c17AddRefs commits one table with cnt fresh refs (names t<k>r<j>).
func c17AddRefs(st *Stack, k, cnt int, payload byte) error {
	return st.Add(func(w *Writer) error {
		ui := st.NextUpdateIndex()
		w.SetLimits(ui, ui)
		for j := 0; j < cnt; j++ {
			v := hashWith(20, byte(k), byte(j))
			v[3] = payload
			name := "t" + string([]byte{'a' + byte(k)}) + "r" + string([]byte{'a' + byte(j/26), 'a' + byte(j%26)})
			if err := w.AddRef(&RefRecord{RefName: name, UpdateIndex: ui, Value: v}); err != nil {
				return err
			}
		}
		return nil
	})
}

// Harness_C17_stack: Stack.AutoCompact acts exactly when and where the chooser says: it merges the suggested contiguous range (the stack shrinks by the size of the range minus one) and does nothing exactly when nothing is suggested.
// bounds: real stacks of 2..4 tables on the model file system, each table holding 1, 2, 12 or 40 refs (so that sizes fall into different power-of-two classes, equal classes at the top, in the middle or at the bottom); one AutoCompact call by the only process; one payload byte symbolic
// covers: compacted, balanced
func Harness_C17_stack() {
	cfg := stackCfg(0)
	dir := VerifTempDir()
	st := mustOpen(dir, cfg, "open")
	if st == nil {
		return
	}
	st.disableAutoCompact = true
	k := VerifIntRange(2, 4)
	payload := VerifU8()
	for i := 0; i < k; i++ {
		cnt := []int{1, 2, 12, 40}[VerifChoose(4)]
		VerifAssert(c17AddRefs(st, i, cnt, payload) == nil, "seed-add")
	}
	sizes := st.tableSizesForCompaction()
	seg := suggestCompactionSegment(sizes)
	n0 := len(st.stack)
	VerifAssert(n0 == k, "seed-depth")
	err := st.AutoCompact()
	VerifAssert(err == nil, "autocompact-error")
	if seg == nil {
		VerifAssert(len(st.stack) == n0, "compacted-a-balanced-stack")
		VerifCover("balanced")
	} else {
		VerifAssert(len(st.stack) == n0-(seg.end-seg.start)+1, "suggested-range-not-compacted")
		VerifCover("compacted")
	}
	fin := mustOpen(dir, cfg, "final-open")
	if fin != nil {
		VerifAssert(len(fin.stack) == len(st.stack), "list-differs-from-handle")
	}
}

// a name long enough that a table holding it as a value ref and one holding its tombstone fall into the same size class
const c17LongName = "refs/heads/xxxxxxxxxxxxxxxxxxxxxxxxxxxxxxxxxxxxxxxxxxxxxxxxxxxxxxxxxxxxxxxxxx"

// Harness_C17_cancel: an automatic compaction whose range cancels out completely (every ref in it is deleted again inside the range, which starts at the oldest table) still makes progress: the tables of the range leave the stack.
// bounds: a lone writer; 2..3 transactions of equal size: a fresh ref is created, then deleted (then a second ref created and, in the 3-transaction variant, the range still ends in tombstones only when that ref is deleted: variants create/delete and create/delete/create); automatic compaction off while seeding, then one AutoCompact call
// covers: vanished, shrunk
func Harness_C17_cancel() {
	cfg := stackCfg(0)
	dir := VerifTempDir()
	st := mustOpen(dir, cfg, "open")
	if st == nil {
		return
	}
	k := VerifIntRange(2, 3)
	for i := 0; i < k; i++ {
		i := i
		VerifAssert(st.Add(func(w *Writer) error {
			ui := st.NextUpdateIndex()
			w.SetLimits(ui, ui)
			r := &RefRecord{RefName: c17LongName, UpdateIndex: ui}
			if i%2 == 0 {
				r.Value = hashWith(20, byte(i+1), 1)
			}
			return w.AddRef(r)
		}) == nil, "seed-add")
	}
	n0 := len(st.stack)
	seg := suggestCompactionSegment(st.tableSizesForCompaction())
	if seg == nil {
		return // sizes happen to differ in class: nothing to compact
	}
	VerifAssert(st.AutoCompact() == nil, "autocompact-error")
	VerifAssert(len(st.stack) < n0, "compaction-made-no-progress")
	fin := mustOpen(dir, cfg, "final-open")
	if fin != nil {
		VerifAssert(len(fin.stack) == len(st.stack), "list-differs-from-handle")
		got := snapshot(fin, "final")
		_, has := got.refs[c17LongName]
		VerifAssert(has == (k == 3), "compaction-changed-refs")
	}
	if len(st.stack) == 0 {
		VerifCover("vanished")
	} else {
		VerifCover("shrunk")
	}
}

// Harness_C17_contended: an automatic compaction that finds one table of its range locked by another process gives up cleanly; once that process is gone the lone writer's stack is shallow again.
// bounds: a stack of 4 equal tables; another process holds the compaction lock of one table (the oldest, a middle one or the newest; the lock file is placed and removed by the harness) while the writer's AutoCompact runs; then 12 more identical transactions by the writer with automatic compaction on, depth bound 2*log2(n) after each
// covers: done
func Harness_C17_contended() {
	cfg := stackCfg(0)
	dir := VerifTempDir()
	st := mustOpen(dir, cfg, "open")
	if st == nil {
		return
	}
	payload := VerifU8()
	for i := 0; i < 4; i++ {
		VerifAssert(c17AddRefs(st, i, 2, payload) == nil, "seed-add")
	}
	which := []int{0, 2, 3}[VerifChoose(3)]
	lock := filepath.Join(dir, st.stack[which].name+".lock")
	VerifQuiet(func() {
		f, err := os.OpenFile(lock, os.O_EXCL|os.O_CREATE|os.O_WRONLY, 0644)
		if err == nil {
			f.Close()
		}
	})
	VerifAssert(st.AutoCompact() == nil, "autocompact-error")
	VerifQuiet(func() { os.Remove(lock) })
	st.disableAutoCompact = false
	VerifMaxSteps(400000000)
	for n := 5; n <= 16; n++ {
		VerifAssert(c17AddRefs(st, n, 2, payload) == nil, "add")
		l := specBitLen(uint64(n)) - 1
		VerifAssert(len(st.stack) <= 2*l, "depth-bound")
	}
	VerifCover("done")
}

// Harness_C17_writer: a real single writer with auto-compaction on: after every one of N identical transactions the stack is at most 2*log2(N) tables deep.
// bounds: N = 64 transactions (thorough 1024) of 1, 2 or 5 fresh refs each through Stack.Add on the model file system, BlockSize 256 or 4096(default) x Unaligned; real table sizes (no size model); one payload byte symbolic; after every Add also the rewrite bound: entries rewritten by compactions so far (counted by the harness from the headers of the tables that appear) <= n * ceil(log2(n+1)) * entries per transaction
// covers: done
func Harness_C17_writer() {
	cfg := Config{BlockSize: []uint32{256, 0}[VerifChoose(2)], Unaligned: VerifChoose(2) == 1}
	dir := VerifTempDir()
	st, err := NewStack(dir, cfg)
	VerifAssert(err == nil, "open")
	if err != nil {
		return
	}
	cnt := []int{1, 2, 5}[VerifChoose(3)]
	payload := VerifU8()
	VerifMaxSteps(4000000000)
	maxN := 64 + 960*VerifTier()
	seen := map[string]bool{}
	var rewritten uint64
	for n := 1; n <= maxN; n++ {
		err := st.Add(func(w *Writer) error {
			ui := st.NextUpdateIndex()
			w.SetLimits(ui, ui)
			for j := 0; j < cnt; j++ {
				v := hashWith(20, byte(n), byte(j))
				v[3] = payload
				name := "n" + string([]byte{'a' + byte(n/676), 'a' + byte(n/26%26), 'a' + byte(n%26), 'a' + byte(j)})
				if err := w.AddRef(&RefRecord{RefName: name, UpdateIndex: ui, Value: v}); err != nil {
					return err
				}
			}
			return nil
		})
		VerifAssert(err == nil, "add")
		if err != nil {
			return
		}
		if n >= 2 {
			l := specBitLen(uint64(n)) - 1
			VerifAssert(len(st.stack) <= 2*l, "depth-bound")
		}
		// entries rewritten so far: every table that is new and spans more than the transaction just added is a
		// compaction result, and it rewrote cnt entries per update index it covers (counted by the harness from
		// the table headers, not taken from the library's statistics)
		for _, rd := range st.stack {
			if !seen[rd.Name()] {
				seen[rd.Name()] = true
				if span := rd.MaxUpdateIndex() - rd.MinUpdateIndex() + 1; span > 1 {
					rewritten += span * uint64(cnt)
				}
			}
		}
		VerifAssert(rewritten <= uint64(n)*uint64(specBitLen(uint64(n)))*uint64(cnt), "rewrite-bound")
	}
	VerifCover("done")
}

// Harness_C17_sizes: the size class AutoCompact works with is that of a table's payload (everything but file header and footer, plus one), for both hash functions: two adjacent tables are merged exactly when those classes are equal.
// bounds: real stacks of 2 unaligned tables, sha1 and sha256; the lower table holds a value ref and a symbolic ref whose target length sweeps 48 values, so that its payload crosses a power-of-two boundary next to a table just above it; classes computed by the harness from the file sizes
// covers: merged, kept
func Harness_C17_sizes() {
	cfg := stackCfg(VerifChoose(2))
	cfg.Unaligned = true
	hs := hsOf(cfg)
	dir := VerifTempDir()
	st := mustOpen(dir, cfg, "open")
	if st == nil {
		return
	}
	st.disableAutoCompact = true
	L := 30 + VerifIntRange(0, 47)
	addTwo := func(k byte, targetLen int) error {
		return st.Add(func(w *Writer) error {
			ui := st.NextUpdateIndex()
			w.SetLimits(ui, ui)
			if err := w.AddRef(&RefRecord{RefName: "r" + string([]byte{'a' + k}), UpdateIndex: ui, Value: hashWith(hs, k, 1)}); err != nil {
				return err
			}
			t := make([]byte, targetLen)
			for i := range t {
				t[i] = 'x'
			}
			return w.AddRef(&RefRecord{RefName: "s" + string([]byte{'a' + k}), UpdateIndex: ui, Target: string(t)})
		})
	}
	VerifAssert(addTwo(0, L) == nil, "add-lower")
	VerifAssert(addTwo(1, 82) == nil, "add-upper")
	// payload sizes from the files themselves
	version := 1
	if cfg.HashID == SHA256ID {
		version = 2
	}
	var cls []int
	VerifQuiet(func() {
		for _, r := range st.stack {
			data, err := ioutil.ReadFile(dir + "/" + r.Name())
			VerifAssert(err == nil, "read-table-file")
			payload := uint64(len(data) - headerSize(version) - footerSize(version))
			cls = append(cls, specBitLen(payload+1)-1)
		}
	})
	VerifAssert(len(cls) == 2, "two-tables")
	if len(cls) != 2 {
		return
	}
	VerifAssert(st.AutoCompact() == nil, "autocompact-error")
	if cls[0] == cls[1] {
		VerifAssert(len(st.stack) == 1, "same-class-tables-not-merged")
		VerifCover("merged")
	} else {
		VerifAssert(len(st.stack) == 2, "tables-of-different-classes-merged")
		VerifCover("kept")
	}
}
