//go:build verif

package reftable

import "bytes"

// specVarintLen is the reference length of the offset varint encoding.
func specVarintLen(v uint64) int {
	n := 1
	for v >= 128 {
		v = (v >> 7) - 1
		n++
	}
	return n
}

// Harness_C01_varint: decode(encode(v)) == v for every 64-bit v.
// bounds: all v in uint64; buffer size 0..10
// covers: done, nofit
func Harness_C01_varint() {
	v := VerifU64()
	n := VerifIntRange(0, 10)
	buf := make([]byte, n)
	k, ok := putVarInt(buf, v)
	VerifAssert(ok == (specVarintLen(v) <= n), "fits-iff")
	if !ok {
		VerifCover("nofit")
		return
	}
	VerifAssert(k == specVarintLen(v), "len-spec")
	got, m := getVarInt(buf[:k])
	VerifAssert(got == v, "value")
	VerifAssert(m == k, "len")
	VerifCover("done")
}

// Harness_C01_key: decodeKey(encodeKey(prev,key)) == key, restart flag iff empty prefix.
// bounds: prev, key of length 0..3 (thorough 0..4), all bytes; extra 0..7; buffer 0..9
// covers: done, nofit
func Harness_C01_key() {
	maxLen := 3 + VerifTier()
	prev := symString(VerifIntRange(0, maxLen))
	key := symString(VerifIntRange(0, maxLen))
	extra := VerifU8()
	VerifAssume(extra < 8)
	buf := make([]byte, VerifIntRange(0, 9))
	n, restart, ok := encodeKey(buf, prev, key, extra)
	if !ok {
		VerifCover("nofit")
		return
	}
	m, k2, e2, ok2 := decodeKey(buf[:n], prev)
	VerifAssert(ok2, "decodes")
	VerifAssert(m == n, "len")
	VerifAssert(k2 == key, "key")
	VerifAssert(e2 == extra, "extra")
	VerifAssert(restart == (commonPrefixSize(prev, key) == 0), "restart")
	VerifCover("done")
}

// Harness_C18_varint: getVarInt on arbitrary bytes never panics.
// bounds: all buffers of length 0..12
// covers: done
func Harness_C18_varint() {
	n := VerifIntRange(0, 12)
	buf := symBytes(n)
	_, k := getVarInt(buf)
	VerifAssert(k <= n, "consumed-within-buffer")
	VerifCover("done")
}

var _ = bytes.Equal

// ---------- record codecs (C01) ----------

// Harness_C01_record_ref: RefRecord.decode(encode(r)) == r for all four kinds.
// bounds: update index any 64 bit; hash size 20 or 32, all hash bytes symbolic; symref target 1..3 bytes; buffer exactly fitting or up to 3 bytes short
// covers: done, nofit
func Harness_C01_record_ref() {
	hs := []int{20, 32}[VerifChoose(2)]
	r := &RefRecord{RefName: "n", UpdateIndex: VerifU64()}
	switch VerifChoose(4) {
	case 1:
		r.Value = symBytes(hs)
	case 2:
		r.Value = symBytes(hs)
		r.TargetValue = symBytes(hs)
	case 3:
		r.Target = symString(VerifIntRange(1, 3))
	}
	need := specVarintLen(r.UpdateIndex) + len(r.Value) + len(r.TargetValue)
	if r.Target != "" {
		need += 1 + len(r.Target)
	}
	short := VerifIntRange(0, 3)
	if short > need {
		return
	}
	buf := make([]byte, need-short)
	n, ok := r.encode(buf, hs)
	VerifAssert(ok == (short == 0), "fits-iff")
	if !ok {
		VerifCover("nofit")
		return
	}
	VerifAssert(n == need, "encoded-len")
	var got RefRecord
	m, ok2 := got.decode(buf[:n], "n", r.valType(), hs)
	VerifAssert(ok2, "decodes")
	VerifAssert(m == n, "decoded-len")
	VerifAssert(got.RefName == "n" && got.UpdateIndex == r.UpdateIndex, "name-index")
	VerifAssert(bytes.Equal(got.Value, r.Value) && bytes.Equal(got.TargetValue, r.TargetValue) && got.Target == r.Target, "payload")
	VerifAssert((got.Value == nil) == (r.Value == nil) && (got.TargetValue == nil) == (r.TargetValue == nil), "nilness")
	VerifCover("done")
}

// Harness_C01_record_log: LogRecord key and value codec round trip.
// bounds: update index, time any 64 bit; tz any 16 bit; hash size 20/32 all bytes symbolic; name/email/message 0..2 bytes all values; ref name 1..2 bytes (the writer rejects empty names)
// covers: done, deletion
func Harness_C01_record_log() {
	hs := []int{20, 32}[VerifChoose(2)]
	l := &LogRecord{RefName: symString(VerifIntRange(1, 2)), UpdateIndex: VerifU64()}
	// key round trip
	var k LogRecord
	VerifAssert(k.decodeKey(l.key()), "key-decodes")
	VerifAssert(k.RefName == l.RefName && k.UpdateIndex == l.UpdateIndex, "key-roundtrip")
	if VerifChoose(2) == 0 {
		VerifAssert(l.valType() == 0, "deletion-valtype")
		var got LogRecord
		n, ok := got.decode(nil, l.key(), 0, hs)
		VerifAssert(ok && n == 0 && got.IsDeletion(), "deletion-roundtrip")
		VerifCover("deletion")
		return
	}
	l.New, l.Old = symBytes(hs), symBytes(hs)
	l.Name, l.Email = symString(VerifIntRange(0, 2)), symString(VerifIntRange(0, 2))
	l.Time = VerifU64()
	l.TZOffset = int16(VerifU16())
	l.Message = symString(VerifIntRange(0, 2))
	if l.IsDeletion() {
		return
	}
	buf := make([]byte, 2*hs+3*3+10+2)
	n, ok := l.encode(buf, hs)
	VerifAssert(ok, "fits")
	var got LogRecord
	m, ok2 := got.decode(buf[:n], l.key(), l.valType(), hs)
	VerifAssert(ok2, "decodes")
	VerifAssert(m == n, "decoded-len")
	VerifAssert(got.RefName == l.RefName && got.UpdateIndex == l.UpdateIndex, "name-index")
	VerifAssert(bytes.Equal(got.New, l.New) && bytes.Equal(got.Old, l.Old), "hashes")
	VerifAssert(got.Name == l.Name && got.Email == l.Email && got.Message == l.Message, "strings")
	VerifAssert(got.Time == l.Time && got.TZOffset == l.TZOffset, "time-tz")
	VerifCover("done")
}

// Harness_C01_record_obj: objRecord codec round trip across the 7/8 count boundary.
// bounds: 0..9 offsets: first any 32 bit (64-bit offsets: record_index, record_ref), then ascending with gaps 1..256; prefix 2 bytes
// covers: done
func Harness_C01_record_obj() {
	cnt := VerifIntRange(0, 9)
	r := &objRecord{HashPrefix: symBytes(2)}
	var last uint64
	for i := 0; i < cnt; i++ {
		var o uint64
		if i == 0 {
			o = uint64(VerifU32())
		} else {
			o = last + (uint64(VerifU8()) + 1)
		}
		r.Offsets = append(r.Offsets, o)
		last = o
	}
	buf := make([]byte, 10*(cnt+1))
	n, ok := r.encode(buf, 20)
	VerifAssert(ok, "fits")
	var got objRecord
	m, ok2 := got.decode(buf[:n], string(r.HashPrefix), r.valType(), 20)
	VerifAssert(ok2, "decodes")
	VerifAssert(m == n, "decoded-len")
	VerifAssert(len(got.Offsets) == cnt, "count")
	// equal first offset and equal successive differences (equivalent to
	// element-wise equality, and local for the solver)
	for i := 0; i < cnt && i < len(got.Offsets); i++ {
		if i == 0 {
			VerifAssert(got.Offsets[0] == r.Offsets[0], "offset")
		} else {
			VerifAssert(got.Offsets[i]-got.Offsets[i-1] == r.Offsets[i]-r.Offsets[i-1], "offset")
		}
	}
	VerifAssert(bytes.Equal(got.HashPrefix, r.HashPrefix), "prefix")
	VerifCover("done")
}

// Harness_C01_record_index: indexRecord codec round trip.
// bounds: offset any 64 bit
// covers: done
func Harness_C01_record_index() {
	r := &indexRecord{LastKey: "k", Offset: VerifU64()}
	buf := make([]byte, 10)
	n, ok := r.encode(buf, 20)
	VerifAssert(ok, "fits")
	var got indexRecord
	m, ok2 := got.decode(buf[:n], "k", 0, 20)
	VerifAssert(ok2 && m == n && got.Offset == r.Offset && got.LastKey == "k", "roundtrip")
	VerifCover("done")
}

// ---------- decoders on arbitrary bytes (C18) ----------

// Harness_C18_decoders: every record/key decoder on an arbitrary buffer never panics and never claims to have consumed more than it was given.
// bounds: buffers of length 0..10 (thorough 0..14), all bytes; prev key 0..2 bytes; value type 0..7; hash size 20 or 2 (so that hashes fit the bound); restart offset any 32 bit
// covers: done
func Harness_C18_decoders() {
	n := VerifIntRange(0, 10+4*VerifTier())
	buf := symBytes(n)
	switch VerifChoose(8) {
	case 0:
		k, _, _, ok := decodeKey(buf, symString(VerifIntRange(0, 2)))
		VerifAssert(!ok || (k >= 0 && k <= n), "decodeKey-len")
	case 1:
		decodeRestartKey(buf, VerifU32())
	case 2:
		k, _, ok := decodeString(buf)
		VerifAssert(!ok || (k >= 0 && k <= n), "decodeString-len")
	case 3:
		var r RefRecord
		vt := VerifU8()
		VerifAssume(vt < 8)
		k, ok := r.decode(buf, "k", vt, []int{20, 2}[VerifChoose(2)])
		VerifAssert(!ok || (k >= 0 && k <= n), "ref-len")
	case 4:
		var l LogRecord
		vt := VerifU8()
		VerifAssume(vt < 8)
		k, ok := l.decode(buf, symString(VerifIntRange(0, 11)), vt, []int{20, 2}[VerifChoose(2)])
		VerifAssert(!ok || (k >= 0 && k <= n), "log-len")
	case 5:
		var o objRecord
		vt := VerifU8()
		VerifAssume(vt < 8)
		k, ok := o.decode(buf, "ab", vt, 20)
		VerifAssert(!ok || (k >= 0 && k <= n), "obj-len")
	case 6:
		var i indexRecord
		k, ok := i.decode(buf, "k", 0, 20)
		VerifAssert(!ok || (k >= 0 && k <= n), "index-len")
	case 7:
		var l LogRecord
		l.decodeKey(string(buf))
	}
	VerifCover("done")
}
