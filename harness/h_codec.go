//go:build verif

package reftable

import "bytes"

// specVarintLen is the reference length of the offset varint encoding.
func specVarintLen(v uint64) int {
	n := 1
	for v >= 128 {
		v = (v >> 7) - 1
		n++
	}
	return n
}

// Harness_C01_varint: decode(encode(v)) == v for every 64-bit v.
// bounds: all v in uint64; buffer size 0..10
// covers: done, nofit
func Harness_C01_varint() {
	v := VerifU64()
	n := VerifIntRange(0, 10)
	buf := make([]byte, n)
	k, ok := putVarInt(buf, v)
	VerifAssert(ok == (specVarintLen(v) <= n), "fits-iff")
	if !ok {
		VerifCover("nofit")
		return
	}
	VerifAssert(k == specVarintLen(v), "len-spec")
	got, m := getVarInt(buf[:k])
	VerifAssert(got == v, "value")
	VerifAssert(m == k, "len")
	VerifCover("done")
}

// Harness_C01_key: decodeKey(encodeKey(prev,key)) == key, restart flag iff empty prefix.
// bounds: prev, key of length 0..3 (thorough 0..4), all bytes; extra 0..7; buffer 0..9
// covers: done, nofit
func Harness_C01_key() {
	maxLen := 3 + VerifTier()
	prev := symString(VerifIntRange(0, maxLen))
	key := symString(VerifIntRange(0, maxLen))
	extra := VerifU8()
	VerifAssume(extra < 8)
	buf := make([]byte, VerifIntRange(0, 9))
	n, restart, ok := encodeKey(buf, prev, key, extra)
	if !ok {
		VerifCover("nofit")
		return
	}
	m, k2, e2, ok2 := decodeKey(buf[:n], prev)
	VerifAssert(ok2, "decodes")
	VerifAssert(m == n, "len")
	VerifAssert(k2 == key, "key")
	VerifAssert(e2 == extra, "extra")
	VerifAssert(restart == (commonPrefixSize(prev, key) == 0), "restart")
	VerifCover("done")
}

// Harness_C18_varint: getVarInt on arbitrary bytes never panics.
// bounds: all buffers of length 0..12
// covers: done
func Harness_C18_varint() {
	n := VerifIntRange(0, 12)
	buf := symBytes(n)
	_, k := getVarInt(buf)
	VerifAssert(k <= n, "consumed-within-buffer")
	VerifCover("done")
}

var _ = bytes.Equal
