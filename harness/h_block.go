//go:build verif

package reftable

// Block-level harnesses: blockWriter -> finish -> newBlockReader -> iterate / seek.

func blockHashSize() int { return 20 }

// genBlockRec returns an arbitrary record of the block's type with the given key material.
func genBlockRef(g *genCfg, name string) *RefRecord {
	r := &RefRecord{RefName: name, UpdateIndex: uint64(VerifU8() & 0x7f)}
	switch VerifChoose(4) {
	case 1:
		r.Value = genHash(g, 0x11)
	case 2:
		r.Value = genHash(g, 0x22)
		r.TargetValue = genHash(g, 0x33)
	case 3:
		r.Target = symString(1)
	}
	return r
}

// Harness_C01_block_ref: a ref block reads back exactly what was added, for every restart/fit interaction.
// bounds: 1..3 refs (thorough 1..4) with names 1..2 bytes all values ascending, 4 kinds, hash 1 free byte + fixed tail; restart interval 1..3 and 16; header offset 0/24/28; buffer size 64/96/120 so that "does not fit" is reachable
// covers: done, full
func Harness_C01_block_ref() {
	g := &genCfg{hashSize: 20, hashFree: 1}
	bs := []int{64, 96, 120}[VerifChoose(3)]
	headerOff := uint32([]int{0, 24, 28}[VerifChoose(3)])
	buf := make([]byte, bs)
	bw := newBlockWriter(blockTypeRef, buf, headerOff, 20)
	bw.restartInterval = []int{1, 2, 3, 16}[VerifChoose(4)]
	k := VerifIntRange(1, 3+VerifTier())
	names := ascendingNames(k, 1, 2)
	var recs []*RefRecord
	full := false
	for i := 0; i < k; i++ {
		r := genBlockRef(g, names[i])
		if !bw.add(r) {
			full = true
			break
		}
		recs = append(recs, r)
	}
	if len(recs) == 0 {
		return
	}
	data := bw.finish()
	// what follows a block in a file is either padding or the next block
	br, err := newBlockReader(data, headerOff, uint32(bs), 20)
	VerifAssert(err == nil, "open")
	if err != nil {
		return
	}
	VerifAssert(int(br.fullBlockSize) == bs, "full-block-size")
	var bi blockIter
	br.start(&bi)
	for i := range recs {
		var got RefRecord
		ok, err := bi.Next(&got)
		VerifAssert(err == nil, "next-err")
		VerifAssert(ok, "dropped")
		if !ok || err != nil {
			return
		}
		VerifAssert(refEq(&got, recs[i]), "record")
	}
	var got RefRecord
	ok, err := bi.Next(&got)
	VerifAssert(err == nil && !ok, "extra")
	if full {
		VerifCover("full")
	} else {
		VerifCover("done")
	}
}

// Harness_C01_block_other: index, obj and log blocks read back what was added.
// bounds: 1..3 records; index: keys 1..2 bytes, offsets 32 bit; obj: 2-byte prefixes, 0..2 offsets; log: names 1 byte, update index/time < 128, hashes 1 free byte; restart interval 1..2,16; buffer 96 (log 200)
// covers: done
func Harness_C01_block_other() {
	typ := []byte{blockTypeIndex, blockTypeObj, blockTypeLog}[VerifChoose(3)]
	bs := 96
	if typ == blockTypeLog {
		bs = 200
	}
	buf := make([]byte, bs)
	headerOff := uint32([]int{0, 24}[VerifChoose(2)])
	bw := newBlockWriter(typ, buf, headerOff, 20)
	bw.restartInterval = []int{1, 2, 16}[VerifChoose(3)]
	k := VerifIntRange(1, 3)
	var recs []record
	g := &genCfg{hashSize: 20, hashFree: 1, idxSmall: true, nameLen: 1}
	switch typ {
	case blockTypeIndex:
		names := ascendingNames(k, 1, 2)
		for i := 0; i < k; i++ {
			recs = append(recs, &indexRecord{LastKey: names[i], Offset: uint64(VerifU32())})
		}
	case blockTypeObj:
		names := ascendingNames(k, 2, 2)
		for i := 0; i < k; i++ {
			o := &objRecord{HashPrefix: []byte(names[i])}
			for j, n := 0, VerifChoose(3); j < n; j++ {
				o.Offsets = append(o.Offsets, uint64(100*j)+uint64(VerifU8()&0x3f))
			}
			recs = append(recs, o)
		}
	case blockTypeLog:
		var prev *LogRecord
		for i := 0; i < k; i++ {
			l := genLog(g, symString(1), VerifChoose(2))
			if prev != nil {
				VerifAssume(specLogLess(prev, l))
			}
			prev = l
			recs = append(recs, l)
		}
	}
	n := 0
	for _, r := range recs {
		if !bw.add(r) {
			break
		}
		n++
	}
	if n == 0 {
		return
	}
	data := bw.finish()
	br, err := newBlockReader(data, headerOff, uint32(bs), 20)
	VerifAssert(err == nil, "open")
	if err != nil {
		return
	}
	var bi blockIter
	br.start(&bi)
	for i := 0; i < n; i++ {
		got := newRecord(typ, "")
		ok, err := bi.Next(got)
		VerifAssert(err == nil, "next-err")
		VerifAssert(ok, "dropped")
		if !ok || err != nil {
			return
		}
		VerifAssert(got.key() == recs[i].key(), "key")
		switch w := recs[i].(type) {
		case *indexRecord:
			VerifAssert(got.(*indexRecord).Offset == w.Offset, "index-offset")
		case *objRecord:
			go_ := got.(*objRecord)
			VerifAssert(len(go_.Offsets) == len(w.Offsets), "obj-count")
			for j := 0; j < len(w.Offsets) && j < len(go_.Offsets); j++ {
				VerifAssert(go_.Offsets[j] == w.Offsets[j], "obj-offset")
			}
		case *LogRecord:
			want := specNormaliseLog(*w, true, 20)
			VerifAssert(logEq(got.(*LogRecord), &want), "log-record")
		}
	}
	got := newRecord(typ, "")
	ok, err := bi.Next(got)
	VerifAssert(err == nil && !ok, "extra")
	VerifCover("done")
}

// specSuffixStart is the index of the first key >= needle.
func specSuffixStart(keys []string, needle string) int {
	i := 0
	for i < len(keys) && keys[i] < needle {
		i++
	}
	return i
}

// Harness_C02_block_seek: blockReader.seek lands on the first record >= needle.
// bounds: 1..4 ref keys of 1..2 bytes (all values, ascending), needle 0..3 bytes all values; restart interval 1..3
// covers: done
func Harness_C02_block_seek() {
	k := VerifIntRange(1, 4)
	buf := make([]byte, 160)
	bw := newBlockWriter(blockTypeRef, buf, 0, 20)
	bw.restartInterval = VerifIntRange(1, 3)
	names := ascendingNames(k, 1, 2)
	for i := 0; i < k; i++ {
		VerifAssert(bw.add(&RefRecord{RefName: names[i], UpdateIndex: uint64(i)}), "fits")
	}
	data := bw.finish()
	br, err := newBlockReader(data, 0, 160, 20)
	VerifAssert(err == nil, "open")
	needle := symString(VerifIntRange(0, 3))
	it, err := br.seek(needle)
	VerifAssert(err == nil, "seek-err")
	if err != nil {
		return
	}
	for i := specSuffixStart(names, needle); i < k; i++ {
		var got RefRecord
		ok, err := it.Next(&got)
		VerifAssert(ok && err == nil, "suffix-short")
		if !ok || err != nil {
			return
		}
		VerifAssert(got.RefName == names[i], "suffix-name")
		VerifAssert(got.UpdateIndex == uint64(i), "suffix-payload")
	}
	var got RefRecord
	ok, _ := it.Next(&got)
	VerifAssert(!ok, "suffix-extra")
	VerifCover("done")
}

// Harness_C18_block: opening, scanning and seeking an arbitrary block never panics.
// bounds: block bytes after the 4-byte header: 0..6 (thorough 0..10), all values; types r,i,o (g: see Harness_C18_logblock); header offset 0/24; table block size 0 (unaligned), exactly the buffer, or larger; seek key 0..2 bytes
// covers: done, rejected
func Harness_C18_block() {
	headerOff := []int{0, 24}[VerifChoose(2)]
	n := VerifIntRange(0, 6+4*VerifTier())
	buf := make([]byte, headerOff+4+n)
	typ := []byte{blockTypeRef, blockTypeIndex, blockTypeObj}[VerifChoose(3)]
	buf[headerOff] = typ
	for i := headerOff + 1; i < len(buf); i++ {
		buf[i] = VerifU8()
	}
	tbs := []uint32{0, uint32(len(buf)), 4096}[VerifChoose(3)]
	br, err := newBlockReader(buf, uint32(headerOff), tbs, 20)
	if err != nil {
		VerifCover("rejected")
		return
	}
	var bi blockIter
	br.start(&bi)
	for i := 0; i < n+2; i++ {
		rec := newRecord(typ, "")
		ok, err := bi.Next(rec)
		if !ok || err != nil {
			break
		}
	}
	br.seek(symString(VerifIntRange(0, 2)))
	VerifCover("done")
}

// Harness_C01_block_maxrestarts: a block with more restart points than the 16-bit count can hold.
// bounds: one concrete block of 66000 deletion refs with restart interval 1 (block size 2^20): the restart table must stop growing at 65535 entries and every record must read back
// covers: done
func Harness_C01_block_maxrestarts() {
	const n = 66000
	VerifMaxSteps(400000000)
	buf := make([]byte, 1<<20)
	bw := newBlockWriter(blockTypeRef, buf, 0, 20)
	bw.restartInterval = 1
	name := func(i int) string {
		return string([]byte{'a' + byte(i/(26*26*26)), 'a' + byte(i/(26*26)%26), 'a' + byte(i/26%26), 'a' + byte(i%26)})
	}
	for i := 0; i < n; i++ {
		VerifAssert(bw.add(&RefRecord{RefName: name(i), UpdateIndex: uint64(i & 1)}), "fits")
	}
	VerifAssert(len(bw.restarts) <= maxRestarts, "restart-count-fits-16-bits")
	data := bw.finish()
	br, err := newBlockReader(data, 0, 1<<20, 20)
	VerifAssert(err == nil, "open")
	if err != nil {
		return
	}
	var bi blockIter
	br.start(&bi)
	for i := 0; i < n; i++ {
		var got RefRecord
		ok, err := bi.Next(&got)
		VerifAssert(ok && err == nil, "dropped")
		if !ok || err != nil {
			return
		}
		if i%1000 == 0 || i > n-500 {
			VerifAssert(got.RefName == name(i), "name")
		}
	}
	var got RefRecord
	ok, err := bi.Next(&got)
	VerifAssert(err == nil && !ok, "extra")
	// seeking still works past the restart table's reach
	it, err := br.seek(name(n - 3))
	VerifAssert(err == nil, "seek")
	if err == nil {
		ok, err = it.Next(&got)
		VerifAssert(ok && err == nil && got.RefName == name(n-3), "seek-result")
	}
	VerifCover("done")
}

// bigBlock fills one ref block with n deletion refs named aaaa, aaab, ... at restart interval 1.
func bigBlock(n int) ([]byte, func(i int) string) {
	buf := make([]byte, 1<<20)
	bw := newBlockWriter(blockTypeRef, buf, 0, 20)
	bw.restartInterval = 1
	name := func(i int) string {
		return string([]byte{'a' + byte(i/(26*26*26)), 'a' + byte(i/(26*26)%26), 'a' + byte(i/26%26), 'a' + byte(i%26)})
	}
	for i := 0; i < n; i++ {
		VerifAssert(bw.add(&RefRecord{RefName: name(i), UpdateIndex: uint64(i & 1)}), "fits")
	}
	return bw.finish(), name
}

// Harness_C02_block_manyrestarts: seeks in a block whose restart table is tens of thousands of entries long (offset arithmetic beyond 16 bits).
// bounds: one concrete block of 30000 refs with restart interval 1 (30000 restart points, restart table of 90000 bytes); seeks for the first, a middle and the last key, keys between two records, before the first and beyond the last; then the scan from there
// covers: done
func Harness_C02_block_manyrestarts() {
	const n = 30000
	VerifMaxSteps(400000000)
	data, name := bigBlock(n)
	br, err := newBlockReader(data, 0, 1<<20, 20)
	VerifAssert(err == nil, "open")
	if err != nil {
		return
	}
	probe := func(key string, want int) {
		it, err := br.seek(key)
		VerifAssert(err == nil, "seek-err")
		if err != nil {
			return
		}
		for i := want; i < n && i < want+3; i++ {
			var got RefRecord
			ok, err := it.Next(&got)
			VerifAssert(ok && err == nil, "suffix-short")
			if !ok || err != nil {
				return
			}
			VerifAssert(got.RefName == name(i), "suffix-name")
		}
		if want >= n {
			var got RefRecord
			ok, err := it.Next(&got)
			VerifAssert(err == nil && !ok, "suffix-extra")
		}
	}
	probe("", 0)
	probe(name(0), 0)
	probe(name(12345), 12345)
	probe(name(12345)+"x", 12346)
	probe(name(21845), 21845)
	probe(name(n-1), n-1)
	probe(name(n-1)+"x", n)
	probe("zzzzz", n)
	VerifCover("done")
}
