//go:build verif

package reftable

// An independent decoder for the reftable format, written from the format
// description (header/footer layout, block layout, restart table, prefix
// compression, per-type values, index and object-index sections).  It shares
// no code with the writer or reader under test: own varint, own key handling,
// own block walk.  zlib and CRC-32 come from the standard library.
//
// Every structural requirement is a VerifAssert with a "wf-" label.

import (
	"bytes"
	"compress/zlib"
	"hash/crc32"
	"io"
)

type specRec struct {
	key   string
	vtype byte
	// decoded values
	ref  RefRecord
	log  LogRecord
	offs []uint64 // obj
	pos  uint64   // index
}

type specBlock struct {
	pos     uint64
	typ     byte
	recs    []specRec
	lastKey string
	diskLen int
}

type specTable struct {
	version   int
	blockSize uint32
	min, max  uint64
	hashSize  int
	refIndex, objPos, objIndex, logPos, logIndex uint64
	objIDLen  int
	blocks    []specBlock
	ok        bool
}

func specU24(b []byte) uint32 { return uint32(b[0])<<16 | uint32(b[1])<<8 | uint32(b[2]) }
func specU64(b []byte) uint64 {
	var v uint64
	for i := 0; i < 8; i++ {
		v = v<<8 | uint64(b[i])
	}
	return v
}

// specVarint decodes the offset varint; n == 0 means malformed.
func specVarint(b []byte) (v uint64, n int) {
	for i := 0; i < len(b) && i < 10; i++ {
		c := b[i]
		if i == 0 {
			v = uint64(c & 0x7f)
		} else {
			v = ((v + 1) << 7) | uint64(c&0x7f)
		}
		if c&0x80 == 0 {
			return v, i + 1
		}
	}
	return 0, 0
}

// specPutVarint encodes v as an offset varint and returns its length.
func specPutVarint(out []byte, v uint64) int {
	var tmp [10]byte
	i := 9
	tmp[i] = byte(v & 0x7f)
	for v >>= 7; v != 0; v >>= 7 {
		v--
		i--
		tmp[i] = 0x80 | byte(v&0x7f)
	}
	return copy(out, tmp[i:])
}

// specDecodeBlock parses one block starting at data[pos:]; hdr is the number
// of file-header bytes preceding the block header (first block only).
func specDecodeBlock(data []byte, pos uint64, hdr int, hashSize int, bodyEnd int) (blk specBlock, ok bool) {
	p := int(pos) + hdr
	VerifAssert(p+4 <= bodyEnd, "wf-block-header-in-file")
	if p+4 > bodyEnd {
		return
	}
	blk.pos = pos
	blk.typ = data[p]
	blen := int(specU24(data[p+1:]))
	var body []byte // the block from the start of the file header / block header to block_len
	switch blk.typ {
	case 'r', 'o', 'i':
		VerifAssert(int(pos)+blen <= bodyEnd, "wf-block-len-in-file")
		if int(pos)+blen > bodyEnd {
			return
		}
		body = data[pos : int(pos)+blen]
		blk.diskLen = blen
	case 'g':
		var out bytes.Buffer
		out.Write(data[pos : p+4])
		src := bytes.NewBuffer(data[p+4 : bodyEnd])
		before := src.Len()
		zr, err := zlib.NewReader(src)
		VerifAssert(err == nil, "wf-log-zlib-header")
		if err != nil {
			return
		}
		_, err = io.Copy(&out, zr)
		VerifAssert(err == nil, "wf-log-inflate")
		if err != nil {
			return
		}
		body = out.Bytes()
		VerifAssert(len(body) == blen, "wf-log-inflated-size")
		if len(body) != blen {
			return
		}
		blk.diskLen = hdr + 4 + (before - src.Len())
	default:
		VerifAssert(false, "wf-block-type")
		return
	}
	VerifAssert(blen >= hdr+4+2, "wf-block-min-size")
	if blen < hdr+4+2 {
		return
	}
	nrestart := int(body[blen-2])<<8 | int(body[blen-1])
	rstart := blen - 2 - 3*nrestart
	VerifAssert(rstart >= hdr+4, "wf-restart-table-in-block")
	if rstart < hdr+4 {
		return
	}
	restarts := map[int]bool{}
	lastR := -1
	for i := 0; i < nrestart; i++ {
		off := int(specU24(body[rstart+3*i:]))
		VerifAssert(off > lastR, "wf-restarts-ascending")
		lastR = off
		restarts[off] = true
	}
	// records
	q := hdr + 4
	prev := ""
	seenRestarts := 0
	for q < rstart {
		recStart := q
		plen, n := specVarint(body[q:rstart])
		VerifAssert(n > 0, "wf-rec-prefix-varint")
		if n == 0 {
			return
		}
		q += n
		sv, n := specVarint(body[q:rstart])
		VerifAssert(n > 0, "wf-rec-suffix-varint")
		if n == 0 {
			return
		}
		q += n
		slen, vt := int(sv>>3), byte(sv&7)
		VerifAssert(int(plen) <= len(prev) && q+slen <= rstart, "wf-rec-key-bounds")
		if int(plen) > len(prev) || q+slen > rstart {
			return
		}
		key := prev[:plen] + string(body[q:q+slen])
		q += slen
		if restarts[recStart] {
			seenRestarts++
			VerifAssert(plen == 0, "wf-restart-points-at-full-key")
		}
		if len(blk.recs) == 0 {
			VerifAssert(plen == 0 && restarts[recStart], "wf-first-record-is-restart")
		}
		VerifAssert(len(blk.recs) == 0 || prev < key, "wf-keys-ascending-in-block")
		rec := specRec{key: key, vtype: vt}
		switch blk.typ {
		case 'r':
			d, n := specVarint(body[q:rstart])
			VerifAssert(n > 0, "wf-ref-delta-varint")
			if n == 0 {
				return
			}
			q += n
			rec.ref = RefRecord{RefName: key, UpdateIndex: d}
			switch vt {
			case 0:
			case 1, 2:
				need := hashSize * int(vt)
				VerifAssert(q+need <= rstart, "wf-ref-hash-bounds")
				if q+need > rstart {
					return
				}
				rec.ref.Value = body[q : q+hashSize]
				if vt == 2 {
					rec.ref.TargetValue = body[q+hashSize : q+2*hashSize]
				}
				q += need
			case 3:
				tl, n := specVarint(body[q:rstart])
				VerifAssert(n > 0 && q+n+int(tl) <= rstart, "wf-ref-target-bounds")
				if n == 0 || q+n+int(tl) > rstart {
					return
				}
				q += n
				rec.ref.Target = string(body[q : q+int(tl)])
				q += int(tl)
			default:
				VerifAssert(false, "wf-ref-value-type")
				return
			}
		case 'i':
			VerifAssert(vt == 0, "wf-index-value-type")
			v, n := specVarint(body[q:rstart])
			VerifAssert(n > 0, "wf-index-pos-varint")
			if n == 0 {
				return
			}
			q += n
			rec.pos = v
		case 'o':
			cnt := uint64(vt)
			if vt == 0 {
				c, n := specVarint(body[q:rstart])
				VerifAssert(n > 0, "wf-obj-count-varint")
				if n == 0 {
					return
				}
				q += n
				cnt = c
			}
			var last uint64
			for j := uint64(0); j < cnt; j++ {
				v, n := specVarint(body[q:rstart])
				VerifAssert(n > 0, "wf-obj-pos-varint")
				if n == 0 {
					return
				}
				q += n
				if j > 0 {
					v += last
				}
				rec.offs = append(rec.offs, v)
				last = v
			}
		case 'g':
			VerifAssert(len(key) >= 10 && key[len(key)-9] == 0, "wf-log-key-shape")
			if len(key) < 10 {
				return
			}
			rec.log = LogRecord{RefName: key[:len(key)-9], UpdateIndex: ^specU64([]byte(key[len(key)-8:]))}
			switch vt {
			case 0:
			case 1:
				VerifAssert(q+2*hashSize <= rstart, "wf-log-hash-bounds")
				if q+2*hashSize > rstart {
					return
				}
				rec.log.Old = body[q : q+hashSize]
				rec.log.New = body[q+hashSize : q+2*hashSize]
				q += 2 * hashSize
				for f := 0; f < 2; f++ {
					l, n := specVarint(body[q:rstart])
					VerifAssert(n > 0 && q+n+int(l) <= rstart, "wf-log-string-bounds")
					if n == 0 || q+n+int(l) > rstart {
						return
					}
					q += n
					s := string(body[q : q+int(l)])
					q += int(l)
					if f == 0 {
						rec.log.Name = s
					} else {
						rec.log.Email = s
					}
				}
				t, n := specVarint(body[q:rstart])
				VerifAssert(n > 0 && q+n+2 <= rstart, "wf-log-time-bounds")
				if n == 0 || q+n+2 > rstart {
					return
				}
				q += n
				rec.log.Time = t
				rec.log.TZOffset = int16(uint16(body[q])<<8 | uint16(body[q+1]))
				q += 2
				l, n := specVarint(body[q:rstart])
				VerifAssert(n > 0 && q+n+int(l) <= rstart, "wf-log-message-bounds")
				if n == 0 || q+n+int(l) > rstart {
					return
				}
				q += n
				rec.log.Message = string(body[q : q+int(l)])
				q += int(l)
			default:
				VerifAssert(false, "wf-log-value-type")
				return
			}
		}
		blk.recs = append(blk.recs, rec)
		prev = key
	}
	VerifAssert(q == rstart, "wf-records-end-at-restart-table")
	VerifAssert(seenRestarts == nrestart, "wf-every-restart-is-a-record-start")
	VerifAssert(len(blk.recs) > 0, "wf-block-not-empty")
	blk.lastKey = prev
	return blk, true
}

// specDecodeTable decodes a whole file by the format rules.
func specDecodeTable(data []byte) (t specTable) {
	VerifAssert(len(data) >= 24+68, "wf-min-file-size")
	if len(data) < 24+68 {
		return
	}
	VerifAssert(string(data[:4]) == "REFT", "wf-magic")
	t.version = int(data[4])
	VerifAssert(t.version == 1 || t.version == 2, "wf-version")
	hs, fs := 24, 68
	t.hashSize = 20
	if t.version == 2 {
		hs, fs = 28, 72
		VerifAssert(len(data) >= hs+fs, "wf-min-file-size")
		id := string(data[24:28])
		VerifAssert(id == "sha1" || id == "s256", "wf-hash-id")
		if id == "s256" {
			t.hashSize = 32
		}
	}
	t.blockSize = specU24(data[5:])
	t.min, t.max = specU64(data[8:]), specU64(data[16:])
	VerifAssert(t.min <= t.max, "wf-min-le-max")
	foot := len(data) - fs
	VerifAssert(bytes.Equal(data[:hs], data[foot:foot+hs]), "wf-footer-repeats-header")
	t.refIndex = specU64(data[foot+hs:])
	op := specU64(data[foot+hs+8:])
	t.objPos, t.objIDLen = op>>5, int(op&31)
	t.objIndex = specU64(data[foot+hs+16:])
	t.logPos = specU64(data[foot+hs+24:])
	t.logIndex = specU64(data[foot+hs+32:])
	crc := uint32(data[len(data)-4])<<24 | uint32(data[len(data)-3])<<16 | uint32(data[len(data)-2])<<8 | uint32(data[len(data)-1])
	VerifAssert(crc == crc32.ChecksumIEEE(data[foot:len(data)-4]), "wf-footer-crc")
	if foot == hs {
		t.ok = true // empty table: header and footer only
		return
	}
	// walk the blocks from the start of the file to the footer
	pos := uint64(0)
	for int(pos) < foot {
		hdr := 0
		if pos == 0 {
			hdr = hs
		}
		blk, ok := specDecodeBlock(data, pos, hdr, t.hashSize, foot)
		if !ok {
			return
		}
		t.blocks = append(t.blocks, blk)
		end := int(pos) + blk.diskLen
		next := end
		if blk.typ != 'g' && t.blockSize != 0 && end < foot {
			// padded to the block size, unless the next block follows directly
			VerifAssert(blk.diskLen <= int(t.blockSize), "wf-block-within-block-size")
			if data[end] == 0 {
				next = int(pos) + int(t.blockSize)
				VerifAssert(next <= foot, "wf-padding-in-file")
				if next > foot {
					return
				}
				for k := end; k < next; k++ {
					VerifAssert(data[k] == 0, "wf-padding-is-zero")
				}
			}
		}
		pos = uint64(next)
	}
	VerifAssert(int(pos) == foot, "wf-blocks-end-at-footer")
	t.ok = true
	return
}

// specSection describes one section as recovered from the block walk.
type specSection struct {
	data  []int // indices into t.blocks of the data blocks
	index [][]int // index levels, lowest first
}

// specCheckStructure asserts the cross-block requirements and returns the
// decoded records.
func specCheckStructure(t *specTable) (refs []RefRecord, logs []LogRecord) {
	if !t.ok {
		return
	}
	byPos := map[uint64]int{}
	for i := range t.blocks {
		byPos[t.blocks[i].pos] = i
	}
	// split the block sequence into runs: data blocks of one type followed by its index blocks
	i := 0
	order := ""
	for i < len(t.blocks) {
		typ := t.blocks[i].typ
		VerifAssert(typ == 'r' || typ == 'o' || typ == 'g', "wf-section-starts-with-data-block")
		order += string([]byte{typ})
		first := i
		prevKey := ""
		for i < len(t.blocks) && t.blocks[i].typ == typ {
			b := &t.blocks[i]
			VerifAssert(i == first || prevKey < b.recs[0].key, "wf-keys-ascending-across-blocks")
			prevKey = b.lastKey
			i++
		}
		dataEnd := i
		idxStart := i
		for i < len(t.blocks) && t.blocks[i].typ == 'i' {
			i++
		}
		// index levels: each level indexes the blocks of the level below, in order
		var declared uint64
		switch typ {
		case 'r':
			declared = t.refIndex
			VerifAssert(t.blocks[first].pos == 0, "wf-ref-section-first")
		case 'o':
			declared = t.objIndex
			VerifAssert(t.blocks[first].pos == t.objPos, "wf-obj-position")
		case 'g':
			declared = t.logIndex
			VerifAssert(t.blocks[first].pos == t.logPos || (first == 0 && t.logPos == 0), "wf-log-position")
		}
		child := make([]int, 0, dataEnd-first)
		for k := first; k < dataEnd; k++ {
			child = append(child, k)
		}
		k := idxStart
		if k == i {
			VerifAssert(declared == 0, "wf-index-position-without-index")
		}
		topStart := uint64(0)
		for k < i {
			// consume index blocks until all children of this level are covered
			levelStart := k
			c := 0
			for k < i && c < len(child) {
				for _, rec := range t.blocks[k].recs {
					VerifAssert(c < len(child), "wf-index-entry-without-child")
					if c >= len(child) {
						return
					}
					cb := &t.blocks[child[c]]
					VerifAssert(rec.pos == cb.pos, "wf-index-entry-position")
					VerifAssert(rec.key == cb.lastKey, "wf-index-entry-last-key")
					c++
				}
				k++
			}
			VerifAssert(c == len(child), "wf-index-covers-every-child")
			topStart = t.blocks[levelStart].pos
			child = child[:0]
			for q := levelStart; q < k; q++ {
				child = append(child, q)
			}
		}
		if idxStart < i {
			VerifAssert(declared == topStart, "wf-index-position-is-top-level")
		}
		// collect records
		for k := first; k < dataEnd; k++ {
			for _, rec := range t.blocks[k].recs {
				switch typ {
				case 'r':
					r := rec.ref
					r.UpdateIndex += t.min
					VerifAssert(r.UpdateIndex >= t.min && r.UpdateIndex <= t.max, "wf-ref-update-index-in-range")
					refs = append(refs, r)
				case 'g':
					logs = append(logs, rec.log)
				}
			}
		}
		if typ == 'o' {
			// object index: every listed position is a ref block containing the id
			for k := first; k < dataEnd; k++ {
				for _, rec := range t.blocks[k].recs {
					VerifAssert(len(rec.key) == t.objIDLen, "wf-obj-id-len")
					for _, p := range rec.offs {
						bi, ok := byPos[p]
						VerifAssert(ok && t.blocks[bi].typ == 'r', "wf-obj-position-is-ref-block")
						if !ok {
							continue
						}
						found := false
						for _, rr := range t.blocks[bi].recs {
							if (len(rr.ref.Value) >= len(rec.key) && string(rr.ref.Value[:len(rec.key)]) == rec.key) ||
								(len(rr.ref.TargetValue) >= len(rec.key) && string(rr.ref.TargetValue[:len(rec.key)]) == rec.key) {
								found = true
							}
						}
						VerifAssert(found, "wf-obj-position-contains-id")
					}
					if len(rec.offs) > 0 {
						// completeness: every ref block holding the id is listed
						for bi := range t.blocks {
							if t.blocks[bi].typ != 'r' {
								continue
							}
							holds := false
							for _, rr := range t.blocks[bi].recs {
								if (len(rr.ref.Value) >= len(rec.key) && string(rr.ref.Value[:len(rec.key)]) == rec.key) ||
									(len(rr.ref.TargetValue) >= len(rec.key) && string(rr.ref.TargetValue[:len(rec.key)]) == rec.key) {
									holds = true
								}
							}
							if holds {
								listed := false
								for _, p := range rec.offs {
									if p == t.blocks[bi].pos {
										listed = true
									}
								}
								VerifAssert(listed, "wf-obj-lists-every-block-with-id")
							}
						}
					}
				}
			}
		}
	}
	VerifAssert(order == "r" || order == "ro" || order == "rg" || order == "rog" || order == "g" || order == "", "wf-section-order")
	if len(order) == 0 || order[0] != 'r' {
		VerifAssert(t.refIndex == 0, "wf-no-ref-index-without-refs")
	}
	// a section the file does not have has no position in the footer
	hasObj, hasLog := false, false
	for k := 0; k < len(order); k++ {
		if order[k] == 'o' {
			hasObj = true
		}
		if order[k] == 'g' {
			hasLog = true
		}
	}
	if !hasObj {
		VerifAssert(t.objPos == 0 && t.objIndex == 0, "wf-obj-position-without-section")
	}
	if !hasLog {
		VerifAssert(t.logPos == 0 && t.logIndex == 0, "wf-log-position-without-section")
	}
	return
}
