//go:build verif

package reftable

// C12: name validation.

func specValidName(s string) bool {
	// no empty, "." or ".." component
	start := 0
	for i := 0; i <= len(s); i++ {
		if i == len(s) || s[i] == '/' {
			comp := s[start:i]
			if comp == "" || comp == "." || comp == ".." {
				return false
			}
			start = i + 1
		}
	}
	return true
}

func specIsDirPrefix(a, b string) bool {
	return len(b) > len(a)+1 && b[:len(a)] == a && b[len(a)] == '/'
}

func specNameConflicts(set []string) bool {
	for _, a := range set {
		for _, b := range set {
			if specIsDirPrefix(a, b) {
				return true
			}
		}
	}
	return false
}

// Harness_C12_refname: validateRefname accepts exactly the names without empty, "." or ".." components.
// bounds: every string of length 0..4 over all byte values (thorough 0..5)
// covers: done
func Harness_C12_refname() {
	s := symString(VerifIntRange(0, 4+VerifTier()))
	VerifAssert(validateRefname(s) == specValidName(s), "refname-validity")
	VerifCover("done")
}

var nameMenu = []string{"a", "a/a", "a/b", "a/b/c", "a/c", "ab", "b", "b/.", "c//d"}

const nValidNames = 7 // the leading valid names of the menu

// apiMenu is the menu of the API-level harnesses (h_stack.go)
var apiMenu = []string{"a", "a/b", "a/b/c", "a/c", "ab", "b"}

// Harness_C12_step: one transaction against an arbitrary conflict-free live set is accepted exactly when the resulting live set is conflict-free and every added name is valid (inductive step: covers histories of any length whose live set stays within the bound).
// bounds: live set = any conflict-free subset (size <= 3) of the valid names of the menu {a, a/a, a/b, a/b/c, a/c, ab, b}; transaction = any subset (size <= 3) of the menu (including the invalid names b/. and c//d), each record an addition of a value ref or of a symbolic ref, or a deletion, in name order; the live refs are all value refs or all symbolic refs
// covers: accepted, rejected
func Harness_C12_step() {
	var live []string
	tab := &memTable{name: "live", min: 1, max: 1}
	liveSym := VerifChoose(2) == 1 // the live refs are symbolic refs
	for i := 0; i < nValidNames; i++ {
		if len(live) < 3 && VerifChoose(2) == 1 {
			live = append(live, nameMenu[i])
			lr := RefRecord{RefName: nameMenu[i], UpdateIndex: 1, Value: hashWith(20, 1, 1)}
			if liveSym {
				lr = RefRecord{RefName: nameMenu[i], UpdateIndex: 1, Target: "HEAD"}
			}
			tab.refs = append(tab.refs, lr)
		}
	}
	if specNameConflicts(live) {
		return // not a reachable state of a name-checked stack
	}
	var recs []RefRecord
	post := append([]string{}, live...)
	allValid := true
	for i := range nameMenu {
		if len(recs) >= 3 {
			break
		}
		k := VerifChoose(4)
		if k == 3 { // add / update a symbolic ref: a live ref like any other
			recs = append(recs, RefRecord{RefName: nameMenu[i], UpdateIndex: 2, Target: "refs/t"})
			k = 1
		} else if k == 1 {
			recs = append(recs, RefRecord{RefName: nameMenu[i], UpdateIndex: 2, Value: hashWith(20, 2, 2)})
		}
		switch k {
		case 1: // add / update
			if !specValidName(nameMenu[i]) {
				allValid = false
			}
			found := false
			for _, p := range post {
				if p == nameMenu[i] {
					found = true
				}
			}
			if !found {
				post = append(post, nameMenu[i])
			}
		case 2: // delete
			recs = append(recs, RefRecord{RefName: nameMenu[i], UpdateIndex: 2})
			for k, p := range post {
				if p == nameMenu[i] {
					post = append(post[:k:k], post[k+1:]...)
					break
				}
			}
		}
	}
	m, err := NewMerged([]Table{tab}, SHA1ID)
	VerifAssert(err == nil, "newmerged")
	m.suppressDeletions = true
	err = validateRefRecordAddition(m, recs)
	want := allValid && !specNameConflicts(post)
	if want {
		VerifAssert(err == nil, "legal-transaction-refused")
		VerifCover("accepted")
	} else {
		VerifAssert(err != nil, "conflicting-transaction-accepted")
		VerifCover("rejected")
	}
}
