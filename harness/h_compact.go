//go:build verif

package reftable

import (
	"bytes"
	"math"
)

// C07 / C13: drive Stack.writeCompact on in-memory tables written by the real
// writer and compare the stack's view before and after with the reference
// overlay.

type tabSpec struct {
	refs []RefRecord
	logs []LogRecord
}

func hashWith(hs int, a, b byte) []byte {
	h := make([]byte, hs)
	h[0], h[1] = a, b
	return h
}

// genTabSpec chooses the content of table t (update index t+1).
// rich: refs over {a,b} with all kinds, logs over {a,b}; otherwise only name a.
func genTabSpec(t int, rich bool, hs int) tabSpec {
	var ts tabSpec
	ui := uint64(t + 1)
	names := []string{"a"}
	if rich {
		names = []string{"a", "b"}
	}
	for ni, nm := range names {
		opts := 4
		if ni > 0 {
			opts = 2
		}
		switch VerifChoose(opts) {
		case 1:
			ts.refs = append(ts.refs, RefRecord{RefName: nm, UpdateIndex: ui, Value: hashWith(hs, VerifU8(), byte(t))})
		case 2:
			ts.refs = append(ts.refs, RefRecord{RefName: nm, UpdateIndex: ui}) // deletion
		case 3:
			if t%2 == 0 {
				ts.refs = append(ts.refs, RefRecord{RefName: nm, UpdateIndex: ui, Target: "b"})
			} else {
				ts.refs = append(ts.refs, RefRecord{RefName: nm, UpdateIndex: ui, Value: hashWith(hs, 1, byte(t)), TargetValue: hashWith(hs, VerifU8(), 9)})
			}
		}
	}
	for ni, nm := range names {
		opts := 4
		if ni > 0 {
			opts = 2
		}
		// log update indices 1 and 2 so that equal log keys occur in different tables
		c := VerifChoose(opts)
		switch c {
		case 1, 2:
			ts.logs = append(ts.logs, LogRecord{RefName: nm, UpdateIndex: uint64(c), Time: uint64(10 + t),
				New: hashWith(hs, VerifU8(), byte(t)), Old: hashWith(hs, 0, 0), Name: "n", Email: "e", Message: "m\n"})
		case 3:
			ts.logs = append(ts.logs, LogRecord{RefName: nm, UpdateIndex: 1}) // deletion
		}
	}
	return ts
}

func writeTabSpec(cfg Config, ts tabSpec, min, max uint64, name string) *Reader {
	var buf bytes.Buffer
	w, err := NewWriter(&buf, &cfg)
	VerifAssert(err == nil, "newwriter")
	w.SetLimits(min, max)
	for i := range ts.refs {
		r := ts.refs[i]
		VerifAssert(w.AddRef(&r) == nil, "setup-addref")
	}
	for i := range ts.logs {
		l := ts.logs[i]
		VerifAssert(w.AddLog(&l) == nil, "setup-addlog")
	}
	err = w.Close()
	VerifAssert(err == nil || err == ErrEmptyTable, "setup-close")
	rd, err := NewReader(&ByteBlockSource{buf.Bytes()}, name)
	VerifAssert(err == nil, "setup-newreader")
	return rd
}

func stackView(cfg Config, readers []*Reader) *Merged {
	var tabs []Table
	for _, r := range readers {
		tabs = append(tabs, r)
	}
	m, err := NewMerged(tabs, cfg.HashID)
	VerifAssert(err == nil, "view-newmerged")
	m.suppressDeletions = true
	return m
}

func scanAllRefs(m *Merged, label string) []RefRecord {
	var out []RefRecord
	it, err := m.SeekRef("")
	VerifAssert(err == nil, label)
	if err != nil {
		return nil
	}
	for {
		var r RefRecord
		ok, err := it.NextRef(&r)
		VerifAssert(err == nil, label)
		if !ok || err != nil {
			return out
		}
		out = append(out, r)
	}
}

func scanAllLogs(m *Merged, label string) []LogRecord {
	var out []LogRecord
	it, err := m.SeekLog("", math.MaxUint64)
	VerifAssert(err == nil, label)
	if err != nil {
		return nil
	}
	for {
		var l LogRecord
		ok, err := it.NextLog(&l)
		VerifAssert(err == nil, label)
		if !ok || err != nil {
			return out
		}
		out = append(out, l)
	}
}

// logsFrom scans the reflog from (name, u): what ReadLogAt and bounded lookups see.
func logsFrom(m *Merged, name string, u uint64, label string) []LogRecord {
	var out []LogRecord
	it, err := m.SeekLog(name, u)
	VerifAssert(err == nil, label)
	if err != nil {
		return nil
	}
	for {
		var l LogRecord
		ok, err := it.NextLog(&l)
		VerifAssert(err == nil, label)
		if !ok || err != nil {
			return out
		}
		out = append(out, l)
	}
}

// specLogsFrom is the suffix of the model's reflog from (name, u).
func specLogsFrom(logs []LogRecord, name string, u uint64) []LogRecord {
	from := &LogRecord{RefName: name, UpdateIndex: u}
	var out []LogRecord
	for i := range logs {
		if !specLogLess(&logs[i], from) {
			out = append(out, logs[i])
		}
	}
	return out
}

func sameRefs(a, b []RefRecord) bool {
	if len(a) != len(b) {
		return false
	}
	for i := range a {
		if !refEq(&a[i], &b[i]) {
			return false
		}
	}
	return true
}

func sameLogs(a, b []LogRecord) bool {
	if len(a) != len(b) {
		return false
	}
	for i := range a {
		if !logEq(&a[i], &b[i]) {
			return false
		}
	}
	return true
}

// expectedView is the reference: overlay of the tables, deletions dropped.
func expectedView(specs []tabSpec, hs int, exact bool) (refs []RefRecord, logs []LogRecord) {
	var rt [][]RefRecord
	var lt [][]LogRecord
	for _, s := range specs {
		rt = append(rt, s.refs)
		var ls []LogRecord
		for _, l := range s.logs {
			ls = append(ls, specNormaliseLog(l, exact, hs))
		}
		lt = append(lt, ls)
	}
	for _, r := range specOverlayRefs(rt) {
		if !specRefIsDeletion(&r) {
			refs = append(refs, r)
		}
	}
	for _, l := range specOverlayLogs(lt) {
		if !specLogIsDeletion(&l) {
			logs = append(logs, l)
		}
	}
	return
}

// compactOnce runs the real writeCompact over [first,last] and returns the
// new reader list (as compactRange installs it).
func compactOnce(cfg Config, readers []*Reader, first, last int, exp *LogExpirationConfig) ([]*Reader, []byte) {
	st := &Stack{cfg: cfg, stack: readers}
	var buf bytes.Buffer
	wr, err := NewWriter(&buf, &cfg)
	VerifAssert(err == nil, "compact-newwriter")
	err = st.writeCompact(wr, first, last, exp)
	VerifAssert(err == nil, "compact-write")
	if err != nil {
		return nil, nil
	}
	err = wr.Close()
	var out []*Reader
	out = append(out, readers[:first]...)
	if err != ErrEmptyTable {
		VerifAssert(err == nil, "compact-close")
		rd, err := NewReader(&ByteBlockSource{buf.Bytes()}, "compacted")
		VerifAssert(err == nil, "compact-newreader")
		if err != nil {
			return nil, nil
		}
		VerifAssert(rd.MinUpdateIndex() == readers[first].MinUpdateIndex() && rd.MaxUpdateIndex() == readers[last].MaxUpdateIndex(), "compact-limits")
		out = append(out, rd)
	}
	out = append(out, readers[last+1:]...)
	return out, buf.Bytes()
}

func compactionHarness(k int, rich bool, nested bool, exactChoices int, hashChoices int) {
	cfg := Config{BlockSize: 256, ExactLogMessage: VerifChoose(exactChoices) == 1, HashID: SHA1ID}
	hs := 20
	if VerifChoose(hashChoices) == 1 {
		cfg.HashID = SHA256ID
		hs = 32
	}
	var specs []tabSpec
	var readers []*Reader
	for t := 0; t < k; t++ {
		ts := genTabSpec(t, rich, hs)
		specs = append(specs, ts)
		readers = append(readers, writeTabSpec(cfg, ts, uint64(t+1), uint64(t+1), string([]byte{'t', '0' + byte(t)})))
	}
	wantRefs, wantLogs := expectedView(specs, hs, cfg.ExactLogMessage)
	before := stackView(cfg, readers)
	VerifAssert(sameRefs(scanAllRefs(before, "before-scan"), wantRefs), "before-refs-match-model")
	VerifAssert(sameLogs(scanAllLogs(before, "before-scan"), wantLogs), "before-logs-match-model")
	first := VerifIntRange(0, k-1)
	last := VerifIntRange(first, k-1)
	readers2, _ := compactOnce(cfg, readers, first, last, nil)
	if readers2 == nil {
		return
	}
	after := stackView(cfg, readers2)
	VerifAssert(sameRefs(scanAllRefs(after, "after-scan"), wantRefs), "compaction-changed-refs")
	VerifAssert(sameLogs(scanAllLogs(after, "after-scan"), wantLogs), "compaction-changed-logs")
	// lookups at a bounded update index (ReadLogAt): the same before and after, and what the model says
	for u := uint64(0); u <= 2; u++ {
		want := specLogsFrom(wantLogs, "a", u)
		VerifAssert(sameLogs(logsFrom(before, "a", u, "before-seek"), want), "before-bounded-log-seek-matches-model")
		VerifAssert(sameLogs(logsFrom(after, "a", u, "after-seek"), want), "compaction-changed-bounded-log-seek")
	}
	if nested && len(readers2) > 1 {
		f2 := VerifIntRange(0, len(readers2)-1)
		l2 := VerifIntRange(f2, len(readers2)-1)
		readers3, _ := compactOnce(cfg, readers2, f2, l2, nil)
		if readers3 == nil {
			return
		}
		again := stackView(cfg, readers3)
		VerifAssert(sameRefs(scanAllRefs(again, "nested-scan"), wantRefs), "nested-compaction-changed-refs")
		VerifAssert(sameLogs(scanAllLogs(again, "nested-scan"), wantLogs), "nested-compaction-changed-logs")
	}
	VerifCover("done")
}

// Harness_C07_pairs: compacting any range of a 2-table stack leaves refs and reflogs unchanged.
// bounds: 2 tables; refs over {a,b}: a in {absent,value,deletion,symref/peeled}, b in {absent,value}; logs: a in {absent,entry@1,entry@2,deletion@1}, b in {absent,entry@1}; value bytes symbolic; every range [first,last]; ExactLogMessage both, HashID sha1 (thorough: sha256 too)
// covers: done
func Harness_C07_pairs() { compactionHarness(2, true, false, 2, 1+VerifTier()) }

// Harness_C07_triples: 3-table stacks (tombstones above and below the compacted range), every range, then a second compaction of every range of the result.
// bounds: 3 tables over the single name a: ref in {absent,value,deletion,symref/peeled}, log in {absent,entry@1,entry@2,deletion@1}; every range; thorough: nested second compaction of every range of the result
// covers: done
func Harness_C07_triples() { compactionHarness(3, false, VerifTier() > 0, 1, 1) }

// ---------- C13 reflog expiry ----------

func specExpire(logs []LogRecord, cfg *LogExpirationConfig) []LogRecord {
	var out []LogRecord
	for _, l := range logs {
		if cfg.Time > 0 && l.Time < cfg.Time {
			continue
		}
		if cfg.MaxUpdateIndex != 0 && l.UpdateIndex > cfg.MaxUpdateIndex {
			continue
		}
		if cfg.MinUpdateIndex != 0 && l.UpdateIndex < cfg.MinUpdateIndex {
			continue
		}
		out = append(out, l)
	}
	return out
}

// Harness_C07_quads: deeper stacks, where one ref is rewritten by many successive tables while other names sort in front of it (the merge queue holds several entries with equal keys at once).
// bounds: 4 tables (thorough 5), each holding one ref record: name in {a,b,c}, a value or a deletion, value byte symbolic; every range [first,last]; refs only
// covers: done
func Harness_C07_quads() {
	cfg := Config{BlockSize: 256, HashID: SHA1ID}
	k := 4 + VerifTier()
	var specs []tabSpec
	var readers []*Reader
	for t := 0; t < k; t++ {
		var ts tabSpec
		ui := uint64(t + 1)
		nm := []string{"a", "b", "c"}[VerifChoose(3)]
		if VerifChoose(2) == 1 {
			ts.refs = append(ts.refs, RefRecord{RefName: nm, UpdateIndex: ui, Value: hashWith(20, VerifU8(), byte(t))})
		} else {
			ts.refs = append(ts.refs, RefRecord{RefName: nm, UpdateIndex: ui})
		}
		specs = append(specs, ts)
		readers = append(readers, writeTabSpec(cfg, ts, ui, ui, string([]byte{'t', '0' + byte(t)})))
	}
	wantRefs, _ := expectedView(specs, 20, false)
	before := stackView(cfg, readers)
	VerifAssert(sameRefs(scanAllRefs(before, "before-scan"), wantRefs), "before-refs-match-model")
	first := VerifIntRange(0, k-1)
	last := VerifIntRange(first, k-1)
	readers2, _ := compactOnce(cfg, readers, first, last, nil)
	if readers2 == nil {
		return
	}
	after := stackView(cfg, readers2)
	VerifAssert(sameRefs(scanAllRefs(after, "after-scan"), wantRefs), "compaction-changed-refs")
	VerifCover("done")
}

// Harness_C13_expiry: CompactAll's rewrite with an expiry configuration drops exactly the expired entries and alters no ref.
// bounds: 2 tables (thorough 3), each one ref and 1..2 reflog entries for names a,b with symbolic time (0..255; the entries carry hashes, so time 0 does not make them deletions), an arbitrary 16-bit time zone offset (which plays no part in expiry) and distinct concrete update indices 1..2k; the three limits Time, MinUpdateIndex, MaxUpdateIndex are arbitrary 64-bit values (0 = unset)
// covers: done
func Harness_C13_expiry() {
	cfg := Config{BlockSize: 256, HashID: SHA1ID}
	k := 2 + VerifTier()
	var readers []*Reader
	var allLogs [][]LogRecord
	var allRefs [][]RefRecord
	for t := 0; t < k; t++ {
		var ts tabSpec
		ts.refs = append(ts.refs, RefRecord{RefName: "a", UpdateIndex: uint64(t + 1), Value: hashWith(20, byte(t), 1)})
		n := VerifIntRange(1, 2)
		for i := 0; i < n; i++ {
			l := LogRecord{RefName: string([]byte{'a' + byte(i)}), UpdateIndex: uint64(2*t + i + 1), Time: uint64(VerifU8()), TZOffset: int16(VerifU16()),
				New: hashWith(20, byte(t), byte(i)), Old: hashWith(20, 0, 0), Message: "m\n"}
			ts.logs = append(ts.logs, l)
		}
		allLogs = append(allLogs, ts.logs)
		allRefs = append(allRefs, ts.refs)
		readers = append(readers, writeTabSpec(cfg, ts, uint64(t+1), uint64(t+1), "t"))
	}
	exp := &LogExpirationConfig{Time: VerifU64(), MaxUpdateIndex: VerifU64(), MinUpdateIndex: VerifU64()}
	before := stackView(cfg, readers)
	refsBefore := scanAllRefs(before, "before-scan")
	logsBefore := scanAllLogs(before, "before-scan")
	VerifAssert(sameLogs(logsBefore, specOverlayLogs(allLogs)), "before-logs-match-model")
	readers2, _ := compactOnce(cfg, readers, 0, k-1, exp)
	if readers2 == nil {
		return
	}
	var after *Merged
	if len(readers2) == 0 {
		VerifAssert(len(refsBefore) == 0, "expiry-dropped-refs")
		VerifCover("done")
		return
	}
	after = stackView(cfg, readers2)
	VerifAssert(sameRefs(scanAllRefs(after, "after-scan"), refsBefore), "expiry-altered-refs")
	VerifAssert(sameLogs(scanAllLogs(after, "after-scan"), specExpire(logsBefore, exp)), "expiry-wrong-entries")
	VerifCover("done")
}

// faultySource fails its n-th ReadBlock, once (harness-side fault injection: the model file system itself has no I/O faults).
type faultySource struct {
	BlockSource
	left int
}

func (f *faultySource) ReadBlock(off uint64, size int) ([]byte, error) {
	f.left--
	if f.left == -1 {
		return nil, fmtError
	}
	return f.BlockSource.ReadBlock(off, size)
}

// Harness_C07_readfault: a compaction whose input cannot be read completely fails and changes nothing; it never commits a partial merge.
// bounds: stack of 2 tables on the (modelled) filesystem, the lower one with 3 ref blocks (14 refs, BlockSize 256) and 2 reflog entries; one read of the lower table's block source fails, the k-th, k = 0..7 (or none); CompactAll; then a fresh handle's refs and reflog against the view before
// assumes: the only I/O fault is a failing ReadBlock of one table (injected by the harness)
// covers: failed, compacted
func Harness_C07_readfault() {
	cfg := stackCfg(0)
	dir := VerifTempDir()
	st := mustOpen(dir, cfg, "open")
	if st == nil {
		return
	}
	VerifAssert(st.Add(func(w *Writer) error {
		w.SetLimits(1, 1)
		for i := 0; i < 14; i++ {
			if err := w.AddRef(&RefRecord{RefName: shapeName(i), UpdateIndex: 1, Value: hashWith(20, byte(i), 1)}); err != nil {
				return err
			}
		}
		for i := 0; i < 2; i++ {
			if err := w.AddLog(&LogRecord{RefName: shapeName(i), UpdateIndex: 1, Time: uint64(i + 1), New: hashWith(20, byte(i), 2), Old: hashWith(20, 0, 0), Message: "m\n"}); err != nil {
				return err
			}
		}
		return nil
	}) == nil, "add-lower")
	VerifAssert(addTxn(st, 7, true) == nil, "add-upper")
	before := snapshot(st, "before")
	k := VerifIntRange(0, 8)
	if k < 8 {
		st.stack[0].src = &faultySource{BlockSource: st.stack[0].src, left: k}
	}
	err := st.CompactAll(nil)
	if err != nil {
		VerifCover("failed")
	} else {
		VerifCover("compacted")
	}
	fin := mustOpen(dir, cfg, "reopen")
	if fin == nil {
		return
	}
	after := snapshot(fin, "after")
	VerifAssert(after.ok && len(after.refs) == len(before.refs) && after.logs == before.logs, "compaction-with-read-fault-changed-the-view")
	for n, v := range before.refs {
		VerifAssert(after.refs[n] == v, "compaction-with-read-fault-changed-a-ref")
	}
}
