//go:build verif

package reftable

import "math"

// ---------- in-memory Table stub (isolates the merge logic from the codec) ----------

type memTable struct {
	name     string
	refs     []RefRecord
	logs     []LogRecord
	min, max uint64
}

type memIter struct {
	t   *memTable
	typ byte
	pos int
}

func (it *memIter) Next(rec record) (bool, error) {
	switch it.typ {
	case blockTypeRef:
		if it.pos >= len(it.t.refs) {
			return false, nil
		}
		*rec.(*RefRecord) = it.t.refs[it.pos]
	case blockTypeLog:
		if it.pos >= len(it.t.logs) {
			return false, nil
		}
		*rec.(*LogRecord) = it.t.logs[it.pos]
	}
	it.pos++
	return true, nil
}

func (t *memTable) seekRecord(rec record) (iterator, error) {
	it := &memIter{t: t, typ: rec.typ()}
	k := rec.key()
	switch rec.typ() {
	case blockTypeRef:
		for it.pos < len(t.refs) && t.refs[it.pos].key() < k {
			it.pos++
		}
	case blockTypeLog:
		for it.pos < len(t.logs) && t.logs[it.pos].key() < k {
			it.pos++
		}
	}
	return it, nil
}
func (t *memTable) MaxUpdateIndex() uint64 { return t.max }
func (t *memTable) MinUpdateIndex() uint64 { return t.min }
func (t *memTable) HashID() HashID         { return SHA1ID }
func (t *memTable) Name() string           { return t.name }
func (t *memTable) SeekRef(n string) (*Iterator, error) {
	it, err := t.seekRecord(&RefRecord{RefName: n})
	return &Iterator{it}, err
}
func (t *memTable) SeekLog(n string, u uint64) (*Iterator, error) {
	it, err := t.seekRecord(&LogRecord{RefName: n, UpdateIndex: u})
	return &Iterator{it}, err
}
func (t *memTable) RefsFor(oid []byte) (*Iterator, error) {
	it, _ := t.seekRecord(&RefRecord{})
	return &Iterator{&filteringRefIterator{tab: t, oid: oid, it: it}}, nil
}

// ---------- reference overlay ----------

// specOverlayRefs: newest table wins per name, result in name order.
func specOverlayRefs(tabs [][]RefRecord) []RefRecord {
	var out []RefRecord
	for _, t := range tabs { // oldest first
		for _, r := range t {
			i := 0
			for i < len(out) && out[i].RefName < r.RefName {
				i++
			}
			if i < len(out) && out[i].RefName == r.RefName {
				out[i] = r
				continue
			}
			out = append(out, RefRecord{})
			copy(out[i+1:], out[i:])
			out[i] = r
		}
	}
	return out
}

func specOverlayLogs(tabs [][]LogRecord) []LogRecord {
	var out []LogRecord
	for _, t := range tabs {
		for _, l := range t {
			l := l
			i := 0
			for i < len(out) && specLogLess(&out[i], &l) {
				i++
			}
			if i < len(out) && out[i].RefName == l.RefName && out[i].UpdateIndex == l.UpdateIndex {
				out[i] = l
				continue
			}
			out = append(out, LogRecord{})
			copy(out[i+1:], out[i:])
			out[i] = l
		}
	}
	return out
}

func specRefIsDeletion(r *RefRecord) bool {
	return len(r.Value) == 0 && len(r.TargetValue) == 0 && r.Target == ""
}

// pickNames returns an ascending subset (size 0..2) of a small alphabet, chosen concretely.
func pickNames(alphabet string) []string {
	var out []string
	for i := 0; i < len(alphabet); i++ {
		if len(out) < 2 && VerifChoose(2) == 1 {
			out = append(out, alphabet[i:i+1])
		}
	}
	return out
}

func mergedRefsHarness(k int, alphabet string, kinds bool, suppress bool, needle string) {
	var tabs []Table
	var model [][]RefRecord
	for t := 0; t < k; t++ {
		var recs []RefRecord
		for _, nm := range pickNames(alphabet) {
			r := RefRecord{RefName: nm, UpdateIndex: uint64(t + 1)}
			if !kinds || VerifChoose(2) == 1 {
				r.Value = make([]byte, 20)
				r.Value[0] = VerifU8()
				r.Value[1] = byte(t + 1)
			}
			recs = append(recs, r)
		}
		tabs = append(tabs, &memTable{name: string([]byte{'t', '0' + byte(t)}), refs: recs, min: uint64(t + 1), max: uint64(t + 1)})
		model = append(model, recs)
	}
	m, err := NewMerged(tabs, SHA1ID)
	VerifAssert(err == nil, "newmerged")
	m.suppressDeletions = suppress
	want := specOverlayRefs(model)
	it, err := m.SeekRef(needle)
	VerifAssert(err == nil, "seek-err")
	// a second iterator of the same view, alive at the same time (a lookup in the middle of a walk), must not disturb the first
	if it2, err2 := m.SeekRef(""); err2 == nil {
		var other RefRecord
		it2.NextRef(&other)
	}
	last := ""
	first := true
	for i := range want {
		if want[i].RefName < needle {
			continue
		}
		if m.suppressDeletions && specRefIsDeletion(&want[i]) {
			continue
		}
		var got RefRecord
		ok, err := it.NextRef(&got)
		VerifAssert(err == nil && ok, "merged-short")
		if !ok || err != nil {
			return
		}
		VerifAssert(first || last < got.RefName, "merged-strictly-ascending")
		first, last = false, got.RefName
		VerifAssert(got.RefName == want[i].RefName, "merged-key")
		VerifAssert(refEq(&got, &want[i]), "merged-newest-wins")
	}
	var got RefRecord
	ok, err := it.NextRef(&got)
	VerifAssert(err == nil && !ok, "merged-extra")
	VerifCover("done")
}

// Harness_C03_refs: the raw merged ref view is the newest-wins overlay in name order; seeking yields its suffix.
// bounds: 1..4 stub tables, each any subset of size <=2 of the names {a,b,c} (so every multiplicity and order of equal keys across up to 4 tables occurs: with 4 tables equal keys meet as sibling heap slots), value byte symbolic; seek key = every string of length 0..2
// covers: done
func Harness_C03_refs() {
	mergedRefsHarness(VerifIntRange(1, 4), "abc", false, false, symString(VerifIntRange(0, 2)))
}

// Harness_C03_refs_deletions: deletion records hide older records; the stack view drops them, the raw view shows them.
// bounds: 1..3 stub tables (a single table matters: nothing to merge, deletions must still be hidden), each a subset of {a,b}, every record a value or a deletion; both views; seek key "" or any 1-byte string
// covers: done
func Harness_C03_refs_deletions() {
	mergedRefsHarness(VerifIntRange(1, 3), "ab", true, VerifChoose(2) == 1, symString(VerifIntRange(0, 1)))
}

func mergedLogsHarness(k int, kinds bool, suppress bool) {
	var tabs []Table
	var model [][]LogRecord
	keys := []LogRecord{{RefName: "a", UpdateIndex: 2}, {RefName: "a", UpdateIndex: 1}, {RefName: "b", UpdateIndex: 2}, {RefName: "b", UpdateIndex: 1}}
	for t := 0; t < k; t++ {
		var recs []LogRecord
		for _, kk := range keys {
			if len(recs) < 2 && VerifChoose(2) == 1 {
				l := kk
				kind := 1
				if kinds {
					kind = VerifChoose(3)
				}
				switch kind {
				case 1:
					l.Time = uint64(t + 1)
					l.Message = "m"
					l.New, l.Old = make([]byte, 20), make([]byte, 20)
					l.New[0] = VerifU8()
				case 2:
					// an entry that carries only who and when (no hashes, no message): an entry, not a deletion
					l.Time = uint64(t + 1)
					l.Name = "n"
				}
				recs = append(recs, l)
			}
		}
		tabs = append(tabs, &memTable{name: string([]byte{'t', '0' + byte(t)}), logs: recs, min: uint64(t + 1), max: uint64(t + 1)})
		model = append(model, recs)
	}
	m, err := NewMerged(tabs, SHA1ID)
	VerifAssert(err == nil, "newmerged")
	m.suppressDeletions = suppress
	want := specOverlayLogs(model)
	sk := &LogRecord{RefName: symString(VerifIntRange(0, 1)), UpdateIndex: VerifU64()}
	for i := 0; i < len(sk.RefName); i++ {
		VerifAssume(sk.RefName[i] != 0)
	}
	it, err := m.SeekLog(sk.RefName, sk.UpdateIndex)
	VerifAssert(err == nil, "seek-err")
	var reused LogRecord
	for i := range want {
		if specLogLess(&want[i], sk) {
			continue
		}
		if m.suppressDeletions && specLogIsDeletion(&want[i]) {
			continue
		}
		if !kinds {
			reused = LogRecord{} // a fresh record per call; with deletions in play the caller's record is reused instead
		}
		got := &reused
		ok, err := it.NextLog(got)
		VerifAssert(err == nil && ok, "merged-short")
		if !ok || err != nil {
			return
		}
		VerifAssert(got.RefName == want[i].RefName && got.UpdateIndex == want[i].UpdateIndex, "merged-key")
		VerifAssert(logEq(got, &want[i]), "merged-newest-wins")
	}
	ok, err := it.NextLog(&reused)
	VerifAssert(err == nil && !ok, "merged-extra")
	VerifCover("done")
}

// Harness_C03_logs: the raw merged reflog view is the newest-wins overlay in (name, newest first) order; seeking yields its suffix.
// bounds: 1..2 stub tables (thorough 1..3), each any subset of size <=2 of the keys {a@2,a@1,b@2,b@1}; payload byte symbolic; seek (NUL-free name of 0..1 bytes, any 64-bit index)
// covers: done
func Harness_C03_logs() {
	mergedLogsHarness(VerifIntRange(1, 2+VerifTier()), false, false)
}

// Harness_C03_logs_deletions: reflog deletion records hide older entries; the stack view drops them.
// bounds: 1..2 stub tables, subsets as above, every entry a full record, a record without hashes and message (identity and time only), or a deletion; both views; the caller reads every entry into one and the same LogRecord
// covers: done
func Harness_C03_logs_deletions() {
	mergedLogsHarness(VerifIntRange(1, 2), true, VerifChoose(2) == 1)
}

// Harness_C03_heap: the priority queue always hands out a minimum (key order, newest table first among equal keys).
// bounds: every sequence of up to 6 add/remove operations (thorough 7) with 1-byte symbolic keys and table indices 0..3
// covers: done
func Harness_C03_heap() {
	var pq mergedIterPQueue
	var model []pqEntry
	steps := 6 + VerifTier()
	for s := 0; s < steps; s++ {
		if len(model) > 0 && VerifChoose(2) == 1 {
			e := pq.remove()
			// e must be a minimum of the model
			mi := -1
			for i := range model {
				VerifAssert(!pqLess(model[i], e), "heap-remove-not-minimum")
				if model[i].rec.key() == e.rec.key() && model[i].index == e.index {
					mi = i
				}
			}
			VerifAssert(mi >= 0, "heap-remove-foreign-entry")
			if mi < 0 {
				return
			}
			model = append(model[:mi], model[mi+1:]...)
		} else {
			e := pqEntry{rec: &RefRecord{RefName: symString(1)}, index: int(VerifU8() & 3)}
			// the merged iterator never holds two entries of one table with one key
			for i := range model {
				VerifAssume(!(model[i].rec.key() == e.rec.key() && model[i].index == e.index))
			}
			pq.add(e)
			model = append(model, e)
		}
		VerifAssert(len(pq.heap) == len(model), "heap-size")
	}
	VerifCover("done")
}

// Harness_C03_order: NewMerged rejects tables whose update-index ranges are not strictly increasing.
// bounds: 2..3 stub tables with arbitrary 64-bit (min,max), min <= max
// covers: accepted, rejected
func Harness_C03_order() {
	k := VerifIntRange(2, 3)
	var tabs []Table
	okOrder := true
	var lastMax uint64
	for t := 0; t < k; t++ {
		mn, mx := VerifU64(), VerifU64()
		VerifAssume(mn <= mx)
		if t > 0 && mn <= lastMax {
			okOrder = false
		}
		lastMax = mx
		tabs = append(tabs, &memTable{name: "t", min: mn, max: mx})
	}
	_, err := NewMerged(tabs, SHA1ID)
	VerifAssert((err == nil) == okOrder, "order-precondition")
	if err == nil {
		VerifCover("accepted")
	} else {
		VerifCover("rejected")
	}
}

var _ uint64 = math.MaxUint64

// Harness_C03_real: the merged view over real multi-block tables (aligned sections of 2..3 blocks without an index, and indexed ones) is the newest-wins overlay, and seeking yields its suffix - each table is sought at the caller's key, whatever the tables before it did with the key.
// bounds: 2 real tables (thorough 2..3): the oldest holds 7 or 14 refs A0.. in ref blocks of BlockSize 96 aligned (3 blocks without index / 6 blocks with index) and 4 reflog entries; each newer table holds 1..2 refs and 0..1 reflog entries over names chosen among existing, in-between and beyond-last ones; raw and deletion-hiding view; seek key = every string of length 0..2, log seeks with every 64-bit update index
// covers: refs, logs
func Harness_C03_real() {
	cfg := Config{BlockSize: 96}
	k := VerifIntRange(1, 1+VerifTier())
	nOld := 7
	if k == 1 {
		nOld = []int{7, 14}[VerifChoose(2)] // three tables only over the unindexed base (the thorough tier stays within minutes)
	}
	var refTabs [][]RefRecord
	var logTabs [][]LogRecord
	var readers []*Reader
	var ts tabSpec
	for i := 0; i < nOld; i++ {
		ts.refs = append(ts.refs, RefRecord{RefName: shapeName(2 * i), UpdateIndex: 1, Value: hashWith(20, byte(i), 1)})
	}
	for i := 0; i < 4; i++ {
		ts.logs = append(ts.logs, LogRecord{RefName: shapeName(2 * i), UpdateIndex: 1, Time: uint64(i + 1), New: hashWith(20, byte(i), 2), Old: hashWith(20, 0, 0), Message: "m\n"})
	}
	refTabs, logTabs = append(refTabs, ts.refs), append(logTabs, ts.logs)
	readers = append(readers, writeTabSpec(cfg, ts, 1, 1, "t0"))
	menu := []string{shapeName(0), shapeName(3), shapeName(4), shapeName(2*nOld - 2), shapeName(2*nOld + 1)}
	for t := 1; t <= k; t++ {
		var n tabSpec
		ui := uint64(t + 1)
		a := VerifChoose(len(menu))
		r := RefRecord{RefName: menu[a], UpdateIndex: ui}
		if VerifChoose(2) == 1 {
			r.Value = hashWith(20, byte(0x80+t), 7)
		}
		n.refs = append(n.refs, r)
		if t == 2 {
			// the third table: one ref only
		} else if b := []int{len(menu), a + 1, len(menu) - 1}[VerifChoose(3)]; b > a && b < len(menu) {
			n.refs = append(n.refs, RefRecord{RefName: menu[b], UpdateIndex: ui, Value: hashWith(20, byte(0x90+t), 3)})
		}
		if t < 2 && VerifChoose(2) == 1 {
			n.logs = append(n.logs, LogRecord{RefName: menu[a], UpdateIndex: ui, Time: uint64(10 + t), New: hashWith(20, byte(t), 4), Old: hashWith(20, 0, 0), Message: "m\n"})
		}
		refTabs, logTabs = append(refTabs, n.refs), append(logTabs, n.logs)
		readers = append(readers, writeTabSpec(cfg, n, ui, ui, "t"))
	}
	var tabs []Table
	for _, r := range readers {
		tabs = append(tabs, r)
	}
	m, err := NewMerged(tabs, SHA1ID)
	VerifAssert(err == nil, "newmerged")
	if err != nil {
		return
	}
	m.suppressDeletions = VerifChoose(2) == 1
	key := symString(VerifIntRange(0, 2))
	if VerifChoose(2) == 0 {
		var want []RefRecord
		for _, r := range specOverlayRefs(refTabs) {
			if r.RefName >= key && !(m.suppressDeletions && specRefIsDeletion(&r)) {
				want = append(want, r)
			}
		}
		it, err := m.SeekRef(key)
		VerifAssert(err == nil, "seekref-err")
		if err != nil {
			return
		}
		for i := range want {
			var got RefRecord
			ok, err := it.NextRef(&got)
			VerifAssert(err == nil && ok, "merged-short")
			if !ok || err != nil {
				return
			}
			VerifAssert(got.RefName == want[i].RefName, "merged-name")
			VerifAssert(refEq(&got, &want[i]), "merged-record")
		}
		var got RefRecord
		ok, err := it.NextRef(&got)
		VerifAssert(err == nil && !ok, "merged-extra")
		VerifCover("refs")
		return
	}
	for i := 0; i < len(key); i++ {
		VerifAssume(key[i] != 0)
	}
	u := VerifU64()
	from := &LogRecord{RefName: key, UpdateIndex: u}
	var want []LogRecord
	for _, l := range specOverlayLogs(logTabs) {
		l := l
		if !specLogLess(&l, from) {
			want = append(want, l)
		}
	}
	it, err := m.SeekLog(key, u)
	VerifAssert(err == nil, "seeklog-err")
	if err != nil {
		return
	}
	for i := range want {
		var got LogRecord
		ok, err := it.NextLog(&got)
		VerifAssert(err == nil && ok, "merged-log-short")
		if !ok || err != nil {
			return
		}
		VerifAssert(got.RefName == want[i].RefName && got.UpdateIndex == want[i].UpdateIndex, "merged-log-key")
		VerifAssert(got.Time == want[i].Time, "merged-log-record")
	}
	var got LogRecord
	ok, err := it.NextLog(&got)
	VerifAssert(err == nil && !ok, "merged-log-extra")
	VerifCover("logs")
}
