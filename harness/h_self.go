//go:build verif

package reftable

// Engine self-tests (not attached to a property; run with `symgo run -harness`).

// specDecodeRune decodes one UTF-8 sequence the way the Go specification says
// a range over a string does: shortest form only, no surrogates, at most
// U+10FFFF; anything else yields U+FFFD and consumes one byte.
func specDecodeRune(s string) (rune, int) {
	b0 := s[0]
	if b0 < 0x80 {
		return rune(b0), 1
	}
	need, lo, hi := 0, byte(0x80), byte(0xBF)
	var r rune
	switch {
	case b0 >= 0xC2 && b0 <= 0xDF:
		need, r = 1, rune(b0&0x1F)
	case b0 >= 0xE0 && b0 <= 0xEF:
		need, r = 2, rune(b0&0x0F)
		if b0 == 0xE0 {
			lo = 0xA0
		}
		if b0 == 0xED {
			hi = 0x9F
		}
	case b0 >= 0xF0 && b0 <= 0xF4:
		need, r = 3, rune(b0&0x07)
		if b0 == 0xF0 {
			lo = 0x90
		}
		if b0 == 0xF4 {
			hi = 0x8F
		}
	default:
		return 0xFFFD, 1
	}
	if len(s) < 1+need {
		return 0xFFFD, 1
	}
	for k := 1; k <= need; k++ {
		c := s[k]
		if c < lo || c > hi {
			return 0xFFFD, 1
		}
		lo, hi = 0x80, 0xBF
		r = r<<6 | rune(c&0x3F)
	}
	return r, 1 + need
}

// Harness_SELF_utf8: the engine's range-over-string agrees with the language rules for every byte string.
// bounds: every string of 0..4 bytes
// covers: done
func Harness_SELF_utf8() {
	s := symString(VerifIntRange(0, 4))
	pos := 0
	for i, r := range s {
		VerifAssert(i == pos, "range-index")
		wr, w := specDecodeRune(s[pos:])
		VerifAssert(r == wr, "range-rune")
		pos += w
	}
	VerifAssert(pos == len(s), "range-end")
	VerifCover("done")
}
