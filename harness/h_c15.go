//go:build verif

package reftable

// C15 (reduced scope): the leaf codec kernels of the C implementation agree
// with the Go kernels.  Under the engine the VerifC_* functions interpret the
// LLVM IR of /repo/c (clang -O1) on the same symbolic input; natively they run
// the C kernel through a small driver built from the same sources.

import (
	"bytes"
	"encoding/hex"
	"fmt"
	"os"
	"os/exec"
	"strconv"
	"strings"
)

func verifCDriver(args ...string) []string {
	drv := os.Getenv("VERIF_CDRIVER")
	if drv == "" {
		panic(verifDiverged{"VERIF_CDRIVER not set"})
	}
	// the driver is built with AddressSanitizer, which needs an unlimited address space
	cmd := exec.Command("bash", append([]string{"-c", `ulimit -S -v unlimited 2>/dev/null; exec "$0" "$@"`, drv}, args...)...)
	cmd.Env = append(os.Environ(), "ASAN_OPTIONS=detect_leaks=0:exitcode=77:abort_on_error=0")
	var stderr bytes.Buffer
	cmd.Stderr = &stderr
	out, err := cmd.Output()
	if err != nil {
		if ee, ok := err.(*exec.ExitError); ok && ee.ExitCode() != 2 {
			// the C code crashed, aborted or tripped the sanitizer
			msg := stderr.String()
			if len(msg) > 600 {
				msg = msg[:600]
			}
			panic(verifCFault{"C driver " + args[0] + ": " + err.Error() + ": " + msg})
		}
		panic(verifDiverged{"C driver: " + err.Error()})
	}
	return strings.Fields(string(out))
}

func verifHex(b []byte) string { return "x" + hex.EncodeToString(b) }

func verifUnhexInto(dst []byte, s string) {
	b, _ := hex.DecodeString(strings.TrimPrefix(s, "x"))
	copy(dst, b)
}

func VerifC_put_var_int(buf []byte, v uint64) int {
	f := verifCDriver("putvarint", strconv.FormatUint(v, 10), strconv.Itoa(len(buf)))
	n, _ := strconv.Atoi(f[0])
	verifUnhexInto(buf, f[1])
	return n
}

func VerifC_get_var_int(buf []byte) (uint64, int) {
	f := verifCDriver("getvarint", verifHex(buf))
	n, _ := strconv.Atoi(f[0])
	v, _ := strconv.ParseUint(f[1], 10, 64)
	return v, n
}

func VerifC_encode_key(buf []byte, prev, key string, extra uint8) (int, bool) {
	f := verifCDriver("encodekey", strconv.Itoa(len(buf)), verifHex([]byte(prev)), verifHex([]byte(key)), strconv.Itoa(int(extra)))
	n, _ := strconv.Atoi(f[0])
	verifUnhexInto(buf, f[2])
	return n, f[1] != "0"
}

func VerifC_decode_key(buf []byte, prev string) (int, string, uint8) {
	f := verifCDriver("decodekey", verifHex(buf), verifHex([]byte(prev)))
	n, _ := strconv.Atoi(f[0])
	e, _ := strconv.Atoi(f[1])
	k, _ := hex.DecodeString(strings.TrimPrefix(f[2], "x"))
	return n, string(k), uint8(e)
}

func VerifC_ref_encode(buf []byte, updateIndex uint64, valType int, v1, v2 []byte, target string, hashSize int) int {
	f := verifCDriver("refencode", strconv.Itoa(len(buf)), strconv.FormatUint(updateIndex, 10), strconv.Itoa(valType),
		verifHex(v1), verifHex(v2), verifHex([]byte(target)), strconv.Itoa(hashSize))
	n, _ := strconv.Atoi(f[0])
	verifUnhexInto(buf, f[1])
	return n
}

// VerifC_scan opens the table with the C reader and returns the canonical dump
// (see harness/cshim.c) of the refs from seek_ref(arg) (mode 0), the logs from
// seek_log_at(arg, idx) (mode 1) or the refs from refs_for(arg) (mode 2).
func VerifC_scan(table []byte, mode int, arg []byte, idx uint64, outcap int) ([]byte, int) {
	f := verifCDriver("scan", verifHex(table), strconv.Itoa(mode), verifHex(arg), strconv.FormatUint(idx, 10), strconv.Itoa(outcap))
	n, _ := strconv.Atoi(f[0])
	b, _ := hex.DecodeString(strings.TrimPrefix(f[1], "x"))
	return b, n
}

// VerifC_write writes a table with the C writer from a canonical record stream.
// flags: 1 unpadded, 2 skip_index_objects, 4 exact_log_message, 8 sha256.
func VerifC_write(desc []byte, blockSize uint32, restartInterval int, flags int, min, max uint64, outcap int) ([]byte, int) {
	f := verifCDriver("write", verifHex(desc), strconv.FormatUint(uint64(blockSize), 10), strconv.Itoa(restartInterval), strconv.Itoa(flags),
		strconv.FormatUint(min, 10), strconv.FormatUint(max, 10), strconv.Itoa(outcap))
	n, _ := strconv.Atoi(f[0])
	b, _ := hex.DecodeString(strings.TrimPrefix(f[1], "x"))
	return b, n
}

// VerifC_stack_scan opens the stack directory with the C stack and returns the
// canonical dump of its merged view: the refs from seek_ref(arg) (mode 0) or
// the logs from seek_log_at(arg, idx) (mode 1).  flags as VerifC_write.
func VerifC_stack_scan(dir string, flags int, mode int, arg []byte, idx uint64, outcap int) ([]byte, int) {
	f := verifCDriver("stackscan", dir, strconv.Itoa(flags), strconv.Itoa(mode), verifHex(arg), strconv.FormatUint(idx, 10), strconv.Itoa(outcap))
	n, _ := strconv.Atoi(f[0])
	b, _ := hex.DecodeString(strings.TrimPrefix(f[1], "x"))
	return b, n
}

// VerifC_stack_op opens the stack directory with the C stack, runs one
// operation (0 add the records of desc at the next update index, 1 the same
// with automatic compaction, 2 compact_all, 3 auto_compact, 4 clean) and
// closes the stack; it returns the operation's result code.
func VerifC_stack_op(dir string, flags int, blockSize uint32, op int, desc []byte) int {
	f := verifCDriver("stackop", dir, strconv.Itoa(flags), strconv.FormatUint(uint64(blockSize), 10), strconv.Itoa(op), verifHex(desc))
	n, _ := strconv.Atoi(f[0])
	return n
}

var _ = fmt.Sprint

// Harness_C15_varint: Go and C varint encoders produce the same bytes, and each decodes the other's output.
// bounds: every 64-bit value x buffer size 0..10
// covers: done, nofit
func Harness_C15_varint() {
	v := VerifU64()
	n := VerifIntRange(0, 10)
	gb, cb := make([]byte, n), make([]byte, n)
	gn, ok := putVarInt(gb, v)
	cn := VerifC_put_var_int(cb, v)
	if !ok {
		VerifAssert(cn < 0, "c-fits-where-go-does-not")
		VerifCover("nofit")
		return
	}
	VerifAssert(cn == gn, "encoded-length-differs")
	VerifAssert(bytes.Equal(gb[:gn], cb[:gn]), "encoded-bytes-differ")
	gv, gm := getVarInt(gb[:gn])
	cv, cm := VerifC_get_var_int(gb[:gn])
	VerifAssert(gv == cv && gv == v, "decoded-value-differs")
	VerifAssert(gm == cm, "decoded-length-differs")
	VerifCover("done")
}

// Harness_C15_getvarint: on every terminated buffer both decoders return the same value and length.
// bounds: buffers of 1..6 bytes (thorough 1..10), all values, last byte < 0x80 (so neither decoder reads past the end: behaviour on truncated input is C18's business, not an interchange question)
// assumes: the buffer ends with a terminating varint byte
// covers: done
func Harness_C15_getvarint() {
	n := VerifIntRange(1, 6+4*VerifTier())
	b := symBytes(n)
	VerifAssume(b[n-1] < 128)
	cv, cm := VerifC_get_var_int(b)
	gv, gm := getVarInt(b)
	VerifAssert(gv == cv, "decoded-value-differs")
	VerifAssert(gm == cm, "decoded-length-differs")
	VerifCover("done")
}

// Harness_C15_key: key prefix compression: same bytes from both encoders, and the C decoder reads the Go encoding back.
// bounds: previous key and key of 0..3 bytes (all values), extra 0..7, buffer 0..9 bytes
// covers: done, nofit
func Harness_C15_key() {
	prev := symString(VerifIntRange(0, 3))
	key := symString(VerifIntRange(0, 3))
	extra := VerifU8()
	VerifAssume(extra < 8)
	n := VerifIntRange(0, 9)
	gb, cb := make([]byte, n), make([]byte, n)
	gn, grestart, ok := encodeKey(gb, prev, key, extra)
	cn, crestart := VerifC_encode_key(cb, prev, key, extra)
	if !ok {
		VerifAssert(cn < 0, "c-fits-where-go-does-not")
		VerifCover("nofit")
		return
	}
	VerifAssert(cn == gn, "encoded-length-differs")
	VerifAssert(bytes.Equal(gb[:gn], cb[:gn]), "encoded-bytes-differ")
	VerifAssert(grestart == crestart, "restart-flag-differs")
	dn, dkey, dextra := VerifC_decode_key(gb[:gn], prev)
	VerifAssert(dn == gn, "c-decoded-length-differs")
	VerifAssert(dkey == key, "c-decoded-key-differs")
	VerifAssert(dextra == extra, "c-decoded-extra-differs")
	VerifCover("done")
}

// Harness_C15_ref: ref record values: same bytes from both encoders for all four kinds.
// bounds: update index any 64 bit; kinds deletion / value / value+peeled / symref (target 1..2 bytes, NUL-free: C strings); hash size 20, first 2 hash bytes symbolic; buffer exactly fitting or 1..2 bytes short
// assumes: symref targets contain no NUL byte (C strings)
// covers: done, nofit
func Harness_C15_ref() {
	g := &genCfg{hashSize: 20, hashFree: 2}
	r := &RefRecord{RefName: "n", UpdateIndex: VerifU64()}
	vt := VerifChoose(4)
	switch vt {
	case 1:
		r.Value = genHash(g, 0x11)
	case 2:
		r.Value = genHash(g, 0x22)
		r.TargetValue = genHash(g, 0x33)
	case 3:
		r.Target = symString(VerifIntRange(1, 2))
		for i := 0; i < len(r.Target); i++ {
			VerifAssume(r.Target[i] != 0)
		}
	}
	need := specVarintLen(r.UpdateIndex) + len(r.Value) + len(r.TargetValue)
	if vt == 3 {
		need += 1 + len(r.Target)
	}
	short := VerifIntRange(0, 2)
	if short > need {
		return
	}
	gb, cb := make([]byte, need-short), make([]byte, need-short)
	gn, ok := r.encode(gb, 20)
	cn := VerifC_ref_encode(cb, r.UpdateIndex, vt, r.Value, r.TargetValue, r.Target, 20)
	if !ok {
		VerifAssert(cn < 0, "c-fits-where-go-does-not")
		VerifCover("nofit")
		return
	}
	VerifAssert(cn == gn, "encoded-length-differs")
	VerifAssert(bytes.Equal(gb[:gn], cb[:gn]), "encoded-bytes-differ")
	VerifCover("done")
}
