//go:build verif

package reftable

import "bytes"

// C11: RefsFor(oid) returns exactly the refs whose value or peeled value is
// oid, each once, in name order, with the fields SeekRef returns.

func checkRefsFor(tab Table, oid []byte, want []RefRecord, label string) {
	it, err := tab.RefsFor(oid)
	VerifAssert(err == nil, label+"-err")
	if err != nil {
		return
	}
	for i := range want {
		var got RefRecord
		ok, err := it.NextRef(&got)
		VerifAssert(err == nil, label+"-next-err")
		VerifAssert(ok, label+"-missing")
		if !ok || err != nil {
			return
		}
		VerifAssert(got.RefName == want[i].RefName, label+"-name")
		VerifAssert(refEq(&got, &want[i]), label+"-fields")
	}
	var got RefRecord
	ok, err := it.NextRef(&got)
	VerifAssert(err == nil, label+"-end-err")
	VerifAssert(!ok, label+"-extra")
}

func refsPointingAt(refs []RefRecord, oid []byte) []RefRecord {
	var out []RefRecord
	for _, r := range refs {
		if bytes.Equal(r.Value, oid) || bytes.Equal(r.TargetValue, oid) {
			out = append(out, r)
		}
	}
	return out
}

// Harness_C11_table: single tables, indexed and unindexed.
// bounds: 2..3 refs (thorough 2..4) named a,b,c,d; two object ids X,Y symbolic in their first 2 bytes, or (SHA-256, block size 128) in their last 2 bytes (X != Y, so the abbreviated id length is the solver's choice: 1..2 or 31..32) plus a fixed id; each ref's value and peeled value chosen among {X,Y,fixed,absent/deletion}; query X, Y or an id occurring nowhere; min update index 5 (so relative/absolute indices differ); Config: BlockSize 96 x Unaligned x SkipIndexObjects
// covers: done
func Harness_C11_table() {
	cfg := Config{BlockSize: 96, Unaligned: VerifChoose(2) == 1, SkipIndexObjects: VerifChoose(2) == 1, RestartInterval: 1}
	hs, s0, s1 := 20, 0, 1
	if VerifChoose(2) == 1 {
		// SHA-256 ids that differ only in their last two bytes: the abbreviation has to be (nearly) the whole id
		cfg.HashID = SHA256ID
		cfg.BlockSize = 128
		hs, s0, s1 = 32, 30, 31
	}
	x, y, z, f := make([]byte, hs), make([]byte, hs), make([]byte, hs), make([]byte, hs)
	for i := 0; i < hs; i++ {
		x[i], y[i], z[i], f[i] = 0x77, 0x77, 0x77, 0x70
	}
	x[s0], x[s1], y[s0], y[s1], z[s0], z[s1] = VerifU8(), VerifU8(), VerifU8(), VerifU8(), VerifU8(), VerifU8()
	VerifAssume(!bytes.Equal(x, y))
	VerifAssume(!bytes.Equal(x, z))
	VerifAssume(!bytes.Equal(y, z))
	ids := [][]byte{x, y, f}
	n := VerifIntRange(2, 3+VerifTier())
	var refs []RefRecord
	var ptrs []*RefRecord
	for i := 0; i < n; i++ {
		r := RefRecord{RefName: string([]byte{'a' + byte(i)}), UpdateIndex: 5 + uint64(i%2)}
		switch c := VerifChoose(5); c {
		case 0, 1, 2:
			r.Value = ids[c]
		case 3:
			r.Value = f
			r.TargetValue = ids[VerifChoose(2)]
		case 4: // deletion
		}
		refs = append(refs, r)
		ptrs = append(ptrs, &refs[i])
	}
	data, ok := writeTable(cfg, 5, 6, ptrs, nil)
	VerifAssert(ok, "writer-accepts")
	rd, err := NewReader(&ByteBlockSource{data}, "t")
	VerifAssert(err == nil, "newreader")
	q := [][]byte{x, y, z}[VerifChoose(3)]
	checkRefsFor(rd, q, refsPointingAt(refs, q), "refsfor")
	VerifCover("done")
}

// Harness_C11_shapes: larger concrete tables: multi-block object index, one object in many ref blocks (position list omitted because it does not fit), aligned and unaligned, no index.
// bounds: shapes: 12 refs/3 objects aligned bs 96; 40 refs/5 objects unaligned bs 64; 130 refs all pointing at one object, aligned bs 64 (truncated position list); 30 refs with SkipIndexObjects; 70 and 170 refs with 180-byte names pointing at one object, bs 256 (one ref per block: a complete position list of 70 entries, and a list of 170 that does not fit and is omitted); queries: every object of the table, a peeled object, and an absent id (first byte symbolic)
// covers: done
func Harness_C11_shapes() {
	type sh struct {
		n, objs int
		cfg     Config
		pad     int // names are padded to this length: one ref per block
	}
	shapes := []sh{
		{12, 3, Config{BlockSize: 96}, 0},
		{40, 5, Config{BlockSize: 64, Unaligned: true, RestartInterval: 1}, 0},
		{130, 1, Config{BlockSize: 64}, 0},
		{30, 4, Config{BlockSize: 64, SkipIndexObjects: true}, 0},
		{70, 1, Config{BlockSize: 256}, 180},  // one object in 70 ref blocks: a position list of 70 entries that still fits its block
		{170, 1, Config{BlockSize: 256}, 180}, // one object in 170 ref blocks: the list does not fit and is omitted
	}
	s := shapes[VerifChoose(len(shapes))]
	var refs []RefRecord
	var ptrs []*RefRecord
	oid := func(k int) []byte {
		h := make([]byte, 20)
		h[0], h[1], h[5] = byte(0x10+k), byte(k*7), 0x42
		return h
	}
	for i := 0; i < s.n; i++ {
		r := RefRecord{RefName: string([]byte{'A' + byte(i/26), 'a' + byte(i%26)}), UpdateIndex: 7 + uint64(i%3), Value: oid(i % s.objs)}
		for len(r.RefName) < s.pad {
			r.RefName += "x"
		}
		if i%5 == 4 {
			r.TargetValue = oid(9)
		}
		refs = append(refs, r)
	}
	for i := range refs {
		ptrs = append(ptrs, &refs[i])
	}
	data, ok := writeTable(s.cfg, 7, 9, ptrs, nil)
	VerifAssert(ok, "writer-accepts")
	rd, err := NewReader(&ByteBlockSource{data}, "t")
	VerifAssert(err == nil, "newreader")
	var q []byte
	switch c := VerifChoose(3); c {
	case 0:
		q = oid(VerifChoose(s.objs))
	case 1:
		q = oid(9)
	case 2:
		q = oid(0)
		q[0] = VerifU8()
		q[7] = 0x99 // occurs nowhere
	}
	checkRefsFor(rd, q, refsPointingAt(refs, q), "refsfor")
	VerifCover("done")
}

// Harness_C11_merged: stacks of real tables: a ref pointing at X in an older table that is deleted or re-pointed in a newer one is not returned; both views.
// bounds: 2 real tables (unaligned bs 64, so both have an object index, or default bs); refs a,b,c per table in {absent, ->X, ->Y, deletion}; query X; raw and deletion-suppressing views
// covers: done
func Harness_C11_merged() {
	cfg := Config{BlockSize: []uint32{64, 0}[VerifChoose(2)], Unaligned: true, RestartInterval: 1, HashID: SHA1ID}
	x, y := hashWith(20, 0xaa, 1), hashWith(20, 0xbb, 2)
	x[2] = VerifU8()
	var specs [][]RefRecord
	var tabs []Table
	for t := 0; t < 2; t++ {
		var ts tabSpec
		for _, nm := range []string{"a", "b", "c"} {
			switch VerifChoose(4) {
			case 1:
				ts.refs = append(ts.refs, RefRecord{RefName: nm, UpdateIndex: uint64(t + 1), Value: x})
			case 2:
				ts.refs = append(ts.refs, RefRecord{RefName: nm, UpdateIndex: uint64(t + 1), Value: y})
			case 3:
				ts.refs = append(ts.refs, RefRecord{RefName: nm, UpdateIndex: uint64(t + 1)})
			}
		}
		if len(ts.refs) == 0 {
			return // a stack never holds an empty table
		}
		specs = append(specs, ts.refs)
		tabs = append(tabs, writeTabSpec(cfg, ts, uint64(t+1), uint64(t+1), string([]byte{'t', '0' + byte(t)})))
	}
	m, err := NewMerged(tabs, SHA1ID)
	VerifAssert(err == nil, "newmerged")
	m.suppressDeletions = VerifChoose(2) == 1
	checkRefsFor(m, x, refsPointingAt(specOverlayRefs(specs), x), "merged-refsfor")
	VerifCover("done")
}
