//go:build verif

package reftable

import (
	"math"
)

// Shaped tables: concrete names, many records, so that sections span many
// blocks and indexes reach several levels; values, update indices and the
// lookup key stay symbolic.

type shape struct {
	nRefs, nLogs int
	cfg          Config
	objs         int // > 0: the refs share this many object ids (objects referenced from many blocks)
	pad          int // > 0: ref names are padded with 'x' to this length (one ref per block)
	noValues     bool // every ref is a deletion or a symbolic ref: nothing to put into an object index
}

func shapeName(i int) string {
	// two-byte names in ascending order: "A0".."A9","B0"...
	return string([]byte{'A' + byte(i/10), '0' + byte(i%10)})
}

// pickShape selects one of the shapes; which is a concrete selector.
func pickShape(which int) shape {
	switch which {
	case 0: // single block, no index
		return shape{nRefs: 3, cfg: Config{BlockSize: 256}}
	case 1: // aligned, 4+ blocks: one index level
		return shape{nRefs: 12, cfg: Config{BlockSize: 96}}
	case 2: // unaligned, index + object index + log section with its own index
		return shape{nRefs: 6, nLogs: 3, cfg: Config{BlockSize: 96, Unaligned: true}}
	case 3: // aligned, many blocks: two index levels
		return shape{nRefs: 40, cfg: Config{BlockSize: 64, RestartInterval: 2}}
	case 4: // unaligned, many blocks: multi-level, multi-block top level, logs after
		return shape{nRefs: 90, nLogs: 8, cfg: Config{BlockSize: 96, Unaligned: true, RestartInterval: 1}}
	case 5: // aligned refs + logs, default-ish block size, sha256
		return shape{nRefs: 20, nLogs: 6, cfg: Config{BlockSize: 128, HashID: SHA256ID}}
	case 6: // three index levels
		return shape{nRefs: 150, cfg: Config{BlockSize: 64, Unaligned: true, RestartInterval: 1, SkipIndexObjects: true}}
	case 7: // logs only, several log blocks
		return shape{nLogs: 10, cfg: Config{BlockSize: 128, Unaligned: true}}
	case 8: // few objects referenced from many ref blocks (position lists of 9..20 entries)
		return shape{nRefs: 44, objs: 3, cfg: Config{BlockSize: 64, Unaligned: true, RestartInterval: 1}}
	case 11: // refs without object ids (deletions and symbolic refs) in enough blocks for a ref index, logs after: no object section
		return shape{nRefs: 16, nLogs: 2, noValues: true, cfg: Config{BlockSize: 96}}
	case 12: // the same, unaligned, without logs
		return shape{nRefs: 16, noValues: true, cfg: Config{BlockSize: 96, Unaligned: true}}
	case 9: // one object in 70 ref blocks: a complete position list of 70 entries
		return shape{nRefs: 70, objs: 1, pad: 180, cfg: Config{BlockSize: 256}}
	case 10: // one object in about 145 of 170 ref blocks: the position list does not fit and is omitted
		return shape{nRefs: 170, objs: 1, pad: 180, cfg: Config{BlockSize: 256}}
	}
	return shape{nRefs: 1}
}

const nShapesQuick = 6
const nShapesAll = 8

func buildShape(sh shape) (refs []*RefRecord, logs []*LogRecord) {
	hs := 20
	if sh.cfg.HashID == SHA256ID {
		hs = 32
	}
	for i := 0; i < sh.nRefs; i++ {
		r := &RefRecord{RefName: shapeName(i), UpdateIndex: 1 + uint64(i%3)}
		for len(r.RefName) < sh.pad {
			r.RefName += "x"
		}
		if sh.noValues {
			if i%2 == 1 {
				r.Target = "refs/heads/" + shapeName(i)
			}
		} else if i%7 != 6 { // mostly value refs, some deletions
			v := make([]byte, hs)
			v[0] = byte(i)
			v[1] = byte(i >> 8)
			if sh.objs > 0 {
				v[0], v[1] = byte(0x40+i%sh.objs), 0
			}
			r.Value = v
		}
		refs = append(refs, r)
	}
	for i := 0; i < sh.nLogs; i++ {
		// two entries per name where possible: newest first
		l := &LogRecord{RefName: shapeName(i / 2), UpdateIndex: uint64(3 - i%2), Time: uint64(10 + i), Message: "m\n"}
		l.New, l.Old = make([]byte, hs), make([]byte, hs)
		l.New[0] = byte(i)
		logs = append(logs, l)
	}
	return
}

// Harness_C01_table_shapes: full scans of shaped tables return every record.
// bounds: 6 shapes (thorough 8): single block; one index level; unaligned with ref index + object index + log index; two index levels; multi-block top-level index with logs; sha256 refs+logs; three index levels (150 refs); logs only. One ref value byte and the update indices of the first ref/log are symbolic.
// covers: done
func Harness_C01_table_shapes() {
	n := nShapesQuick
	if VerifTier() > 0 {
		n = nShapesAll
	}
	sh := pickShape(VerifChoose(n))
	refs, logs := buildShape(sh)
	if len(refs) > 0 {
		refs[0].UpdateIndex = 1 + uint64(VerifU8()&3)
		if refs[len(refs)-1].Value != nil {
			refs[len(refs)-1].Value[2] = VerifU8()
		}
	}
	if len(logs) > 0 {
		logs[len(logs)-1].Time = uint64(VerifU8())
	}
	ok := tableRoundTrip(sh.cfg, 1, 4, refs, logs)
	VerifAssert(ok, "writer-accepts")
	VerifCover("done")
}

// Harness_C02_table_seek_ref: SeekRef(k) yields exactly the scan suffix of names >= k.
// bounds: the same shapes; k = every string of length 0..3 over all byte values (fully symbolic)
// covers: done
func Harness_C02_table_seek_ref() {
	n := nShapesQuick
	if VerifTier() > 0 {
		n = nShapesAll
	}
	sh := pickShape(VerifChoose(n))
	if sh.nRefs == 0 {
		return
	}
	refs, logs := buildShape(sh)
	data, ok := writeTable(sh.cfg, 1, 4, refs, logs)
	VerifAssert(ok, "writer-accepts")
	rd, err := NewReader(&ByteBlockSource{data}, "t")
	VerifAssert(err == nil, "newreader")
	needle := symString(VerifIntRange(0, 3))
	it, err := rd.SeekRef(needle)
	VerifAssert(err == nil, "seek-err")
	if err != nil {
		return
	}
	start := 0
	for start < len(refs) && refs[start].RefName < needle {
		start++
	}
	VerifObserve("start", start)
	for i := start; i < len(refs); i++ {
		var got RefRecord
		ok, err := it.NextRef(&got)
		VerifAssert(err == nil, "suffix-err")
		VerifAssert(ok, "suffix-short")
		if !ok || err != nil {
			return
		}
		VerifAssert(got.RefName == refs[i].RefName, "suffix-name")
		VerifAssert(refEq(&got, refs[i]), "suffix-payload")
	}
	var got RefRecord
	ok, err = it.NextRef(&got)
	VerifAssert(err == nil && !ok, "suffix-extra")
	// ReadRef agrees
	rec, err := ReadRef(rd, needle)
	VerifAssert(err == nil, "readref-err")
	if start < len(refs) && refs[start].RefName == needle {
		VerifAssert(rec != nil && rec.RefName == needle, "readref-present")
	} else {
		VerifAssert(rec == nil, "readref-absent")
	}
	VerifCover("done")
}

// indexLevels counts the index levels above the ref section, walking down from the footer's ref index position through first children (independent decoder).
func indexLevels(data []byte) int {
	t := specDecodeTable(data)
	if !t.ok {
		return -1
	}
	levels := 0
	pos := t.refIndex
	for pos != 0 {
		var blk *specBlock
		for i := range t.blocks {
			if t.blocks[i].pos == pos {
				blk = &t.blocks[i]
			}
		}
		if blk == nil || blk.typ != 'i' || len(blk.recs) == 0 {
			break
		}
		levels++
		pos = blk.recs[0].pos
		if pos == 0 {
			// the first child of the lowest index level is the first ref block at offset 0
			break
		}
	}
	return levels
}

// Harness_C02_table_seek_deep: seeks through an index of four or more levels (small blocks, many refs).
// bounds: 120 refs with 19-byte names, BlockSize 96, RestartInterval 1, aligned and unaligned, no object index (one ref per block, three entries per index block: at least 4 index levels, checked with the independent decoder); k = every string of length 0..2 over all byte values, or any of the 120 names exactly; SeekRef suffix
// covers: done
func Harness_C02_table_seek_deep() {
	sh := shape{nRefs: 120, cfg: Config{BlockSize: 96, Unaligned: VerifChoose(2) == 1, RestartInterval: 1, SkipIndexObjects: true}}
	refs, _ := buildShape(sh)
	for _, r := range refs {
		r.RefName += "/xxxxxxxxxxxxxxxx" // long keys: one ref per block, two entries per index block
	}
	data, ok := writeTable(sh.cfg, 1, 4, refs, nil)
	VerifAssert(ok, "writer-accepts")
	VerifAssert(indexLevels(data) >= 4, "base-has-four-index-levels")
	rd, err := NewReader(&ByteBlockSource{data}, "t")
	VerifAssert(err == nil, "newreader")
	var needle string
	if VerifChoose(2) == 1 {
		needle = refs[VerifChoose(len(refs))].RefName // every key exactly
	} else {
		needle = symString(VerifIntRange(0, 2))
	}
	it, err := rd.SeekRef(needle)
	VerifAssert(err == nil, "seek-err")
	if err != nil {
		return
	}
	start := 0
	for start < len(refs) && refs[start].RefName < needle {
		start++
	}
	for i := start; i < len(refs); i++ {
		var got RefRecord
		ok, err := it.NextRef(&got)
		VerifAssert(err == nil, "suffix-err")
		VerifAssert(ok, "suffix-short")
		if !ok || err != nil {
			return
		}
		VerifAssert(refEq(&got, refs[i]), "suffix-payload")
	}
	var got RefRecord
	ok, err = it.NextRef(&got)
	VerifAssert(err == nil && !ok, "suffix-extra")
	VerifCover("done")
}

// Harness_C02_table_seek_log: SeekLog(name, u) yields the scan suffix starting at the newest entry of name with update index <= u.
// bounds: the shapes with logs; name = every NUL-free string of length 0..3, u = every 64-bit value
// assumes: ref names contain no NUL byte (the log key format is name NUL reversed-index)
// covers: done
func Harness_C02_table_seek_log() {
	which := []int{2, 4, 5, 7}[VerifChoose(3+VerifTier())]
	sh := pickShape(which)
	refs, logs := buildShape(sh)
	data, ok := writeTable(sh.cfg, 1, 4, refs, logs)
	VerifAssert(ok, "writer-accepts")
	rd, err := NewReader(&ByteBlockSource{data}, "t")
	VerifAssert(err == nil, "newreader")
	name := symString(VerifIntRange(0, 3))
	for i := 0; i < len(name); i++ {
		VerifAssume(name[i] != 0) // the log key is name NUL index: names cannot contain NUL
	}
	u := VerifU64()
	// seeks in another section through the same reader, before and after: one lookup must not steer the next
	probeRef := func(label string) {
		if len(refs) == 0 {
			return
		}
		mid := refs[len(refs)/2]
		rec, err := ReadRef(rd, mid.RefName)
		VerifAssert(err == nil && rec != nil && refEq(rec, mid), label)
	}
	probeRef("ref-lookup-before-log-seek")
	it, err := rd.SeekLog(name, u)
	VerifAssert(err == nil, "seek-err")
	if err != nil {
		return
	}
	probeRef("ref-lookup-after-log-seek")
	want := &LogRecord{RefName: name, UpdateIndex: u}
	start := 0
	for start < len(logs) && specLogLess(logs[start], want) {
		start++
	}
	VerifObserve("start", start)
	for i := start; i < len(logs); i++ {
		var got LogRecord
		ok, err := it.NextLog(&got)
		VerifAssert(err == nil, "suffix-err")
		VerifAssert(ok, "suffix-short")
		if !ok || err != nil {
			return
		}
		VerifAssert(got.RefName == logs[i].RefName && got.UpdateIndex == logs[i].UpdateIndex, "suffix-key")
		VerifAssert(got.Time == logs[i].Time, "suffix-payload")
	}
	var got LogRecord
	ok, err = it.NextLog(&got)
	VerifAssert(err == nil && !ok, "suffix-extra")
	VerifCover("done")
}

var _ uint64 = math.MaxUint64

// Harness_C02_table_seek_small: small tables with symbolic names: SeekRef(k) yields the suffix of names >= k.
// bounds: 1..3 refs with names of 1..2 bytes (all values, ascending), value or deletion; BlockSize {64,4096} x Unaligned x RestartInterval {1,16}; k = every string of length 0..2
// covers: done
func Harness_C02_table_seek_small() {
	cfg := Config{BlockSize: []uint32{64, 0}[VerifChoose(2)], Unaligned: VerifChoose(2) == 1, RestartInterval: 1 - VerifChoose(2)}
	g := &genCfg{hashSize: 20, hashFree: 1, idxSmall: true}
	n := VerifIntRange(1, 3)
	names := ascendingNames(n, 1, 2)
	var refs []*RefRecord
	for i := 0; i < n; i++ {
		r := &RefRecord{RefName: names[i], UpdateIndex: 1}
		if VerifChoose(2) == 1 {
			r.Value = genHash(g, 0x11)
		}
		refs = append(refs, r)
	}
	data, ok := writeTable(cfg, 1, 1, refs, nil)
	if !ok {
		VerifCover("rejected")
		return
	}
	rd, err := NewReader(&ByteBlockSource{data}, "t")
	VerifAssert(err == nil, "newreader")
	needle := symString(VerifIntRange(0, 2))
	it, err := rd.SeekRef(needle)
	VerifAssert(err == nil, "seek-err")
	if err != nil {
		return
	}
	for i := range refs {
		if refs[i].RefName < needle {
			continue
		}
		var got RefRecord
		ok, err := it.NextRef(&got)
		VerifAssert(ok && err == nil, "suffix-short")
		if !ok || err != nil {
			return
		}
		VerifAssert(got.RefName == refs[i].RefName, "suffix-name")
		VerifAssert(refEq(&got, refs[i]), "suffix-payload")
	}
	var got RefRecord
	ok, err = it.NextRef(&got)
	VerifAssert(err == nil && !ok, "suffix-extra")
	VerifCover("done")
}

// Harness_C02_table_seek_biglog: SeekLog through the log index onto log blocks that deflate cannot shrink and that fill the block size to within a few bytes (the reader has to fetch more than the block size, whichever way it got to the block).
// bounds: 5 reflog entries a..e, one per log block (BlockSize 256 x Unaligned), each with a message of L arbitrary bytes, L sweeping 24 values up to the largest that fits; all message and hash bytes symbolic and unconstrained (stored-block model; the native replay uses incompressible data); SeekLog for each of the 5 names and for a name beyond the last
// covers: done, rejected
func Harness_C02_table_seek_biglog() {
	cfg := Config{BlockSize: 256, ExactLogMessage: true, Unaligned: VerifChoose(2) == 1}
	L := 140 + VerifIntRange(0, 23)
	var logs []*LogRecord
	for i := 0; i < 5; i++ {
		// hashes arbitrary too: a run of equal bytes would let the real deflate shrink the block
		l := &LogRecord{RefName: string([]byte{'a' + byte(i)}), UpdateIndex: 1, Time: uint64(5 + i), New: symBytes(20), Old: symBytes(20), Name: "n", Email: "e"}
		l.Message = symString(L)
		logs = append(logs, l)
	}
	data, ok := writeTable(cfg, 1, 1, nil, logs)
	if !ok {
		VerifCover("rejected")
		return
	}
	rd, err := NewReader(&ByteBlockSource{data}, "t")
	VerifAssert(err == nil, "newreader")
	if err != nil {
		return
	}
	k := VerifChoose(6)
	name := string([]byte{'a' + byte(k)})
	it, err := rd.SeekLog(name, math.MaxUint64)
	VerifAssert(err == nil, "seek-err")
	if err != nil {
		return
	}
	for i := k; i < 5; i++ {
		var got LogRecord
		ok, err := it.NextLog(&got)
		VerifAssert(err == nil, "suffix-err")
		VerifAssert(ok, "suffix-short")
		if !ok || err != nil {
			return
		}
		VerifAssert(got.RefName == logs[i].RefName && got.Time == logs[i].Time, "suffix-key")
		VerifAssert(got.Message == logs[i].Message, "suffix-payload")
	}
	var got LogRecord
	ok, err = it.NextLog(&got)
	VerifAssert(err == nil && !ok, "suffix-extra")
	VerifCover("done")
}
