//go:build verif

package reftable

// C15 at table level: tables written by one implementation are read by the
// other with identical records.  The C side runs through harness/cshim.c (the
// public C reader / writer API over an in-memory block source); under the
// engine the LLVM IR of /repo/c and of the shim is interpreted on the same
// symbolic bytes, natively the shim is linked into the replay driver.  Records
// cross the language boundary in the canonical binary stream described in
// cshim.c.

func c15U16(b []byte, v int) []byte { return append(b, byte(v>>8), byte(v)) }

func c15U32(b []byte, v uint32) []byte {
	return append(b, byte(v>>24), byte(v>>16), byte(v>>8), byte(v))
}

func c15U64(b []byte, v uint64) []byte {
	return append(b, byte(v>>56), byte(v>>48), byte(v>>40), byte(v>>32), byte(v>>24), byte(v>>16), byte(v>>8), byte(v))
}

func c15Str(b []byte, s string) []byte {
	b = c15U16(b, len(s))
	return append(b, s...)
}

func c15Hash(b, h []byte, hs int) []byte {
	if len(h) == 0 {
		return append(b, make([]byte, hs)...)
	}
	return append(b, h...)
}

func c15Ref(b []byte, r *RefRecord, hs int) []byte {
	b = append(b, 'R')
	b = c15Str(b, r.RefName)
	b = c15U64(b, r.UpdateIndex)
	vt := r.valType()
	b = append(b, vt)
	switch vt {
	case 1:
		b = c15Hash(b, r.Value, hs)
	case 2:
		b = c15Hash(b, r.Value, hs)
		b = c15Hash(b, r.TargetValue, hs)
	case 3:
		b = c15Str(b, r.Target)
	}
	return b
}

func c15Log(b []byte, l *LogRecord, hs int) []byte {
	b = append(b, 'L')
	b = c15Str(b, l.RefName)
	b = c15U64(b, l.UpdateIndex)
	if specLogIsDeletion(l) {
		return append(b, 0)
	}
	b = append(b, 1)
	b = c15Hash(b, l.New, hs)
	b = c15Hash(b, l.Old, hs)
	b = c15Str(b, l.Name)
	b = c15Str(b, l.Email)
	b = c15U64(b, l.Time)
	b = c15U16(b, int(uint16(l.TZOffset)))
	b = c15Str(b, l.Message)
	return b
}

func c15Head(b []byte, min, max uint64) []byte {
	b = append(b, 'H')
	b = c15U64(b, min)
	return c15U64(b, max)
}

func c15End(b []byte, err int) []byte {
	b = append(b, 'E')
	return c15U32(b, uint32(err))
}

func c15NulFree(s string) {
	for i := 0; i < len(s); i++ {
		VerifAssume(s[i] != 0)
	}
}

func c15HashSize(cfg Config) int {
	if cfg.HashID == SHA256ID {
		return 32
	}
	return 20
}

// c15ScanRefs: the C reader's scan from name equals the given refs.
func c15ScanRefs(data []byte, min, max uint64, name string, want []*RefRecord, hs int, label string) {
	exp := c15Head(nil, min, max)
	for _, r := range want {
		exp = c15Ref(exp, r, hs)
	}
	exp = c15End(exp, 0)
	got, n := VerifC_scan(data, 0, []byte(name), 0, len(exp)+64)
	VerifAssert(n == len(exp), label+"-length")
	VerifAssert(n == len(exp) && bytesEq(got, exp), label)
}

func c15ScanLogs(data []byte, min, max uint64, name string, idx uint64, want []LogRecord, hs int, label string) {
	exp := c15Head(nil, min, max)
	for i := range want {
		exp = c15Log(exp, &want[i], hs)
	}
	exp = c15End(exp, 0)
	got, n := VerifC_scan(data, 1, []byte(name), idx, len(exp)+64)
	VerifAssert(n == len(exp), label+"-length")
	VerifAssert(n == len(exp) && bytesEq(got, exp), label)
}

// Harness_C15_go_c_refs: a ref table written by Go is scanned by the C reader with identical records.
// bounds: 1..2 refs, names 1 byte (thorough 1..2 bytes; NUL-free), 4 value kinds, hash bytes: first 2 free + fixed tail, update index min..min+127; Config: BlockSize in {64, 4096(default)} x Unaligned x HashID in {sha1, sha256}
// assumes: names and symref targets contain no NUL byte (C strings)
// covers: done, rejected
func Harness_C15_go_c_refs() {
	cfg := Config{
		BlockSize: []uint32{64, 0}[VerifChoose(2)],
		Unaligned: VerifChoose(2) == 1,
	}
	g := &genCfg{hashSize: 20, hashFree: 2, idxSmall: true}
	if VerifChoose(2) == 1 {
		cfg.HashID = SHA256ID
		g.hashSize = 32
	}
	min := uint64(VerifU32())
	n := VerifIntRange(1, 2)
	names := ascendingNames(n, 1, 1+VerifTier())
	var refs []*RefRecord
	for i := 0; i < n; i++ {
		c15NulFree(names[i])
		r := genRef(g, names[i], min, min+200)
		c15NulFree(r.Target)
		refs = append(refs, r)
	}
	data, ok := writeTable(cfg, min, min+200, refs, nil)
	if !ok {
		VerifCover("rejected")
		return
	}
	c15ScanRefs(data, min, min+200, "", refs, g.hashSize, "c-scan-differs")
	VerifCover("done")
}

// c15GoRefs is the Go reader's side of shim_scan mode 0.
func c15GoRefs(rd Table, name string, hs int) []byte {
	out := c15Head(nil, rd.MinUpdateIndex(), rd.MaxUpdateIndex())
	it, err := rd.SeekRef(name)
	VerifAssert(err == nil, "go-seekref-err")
	if err != nil {
		return nil
	}
	for {
		var r RefRecord
		ok, err := it.NextRef(&r)
		VerifAssert(err == nil, "go-nextref-err")
		if err != nil {
			return nil
		}
		if !ok {
			break
		}
		out = c15Ref(out, &r, hs)
	}
	return c15End(out, 0)
}

// c15GoLogs is the Go reader's side of shim_scan mode 1.
func c15GoLogs(rd Table, name string, idx uint64, hs int) []byte {
	out := c15Head(nil, rd.MinUpdateIndex(), rd.MaxUpdateIndex())
	it, err := rd.SeekLog(name, idx)
	VerifAssert(err == nil, "go-seeklog-err")
	if err != nil {
		return nil
	}
	for {
		var l LogRecord
		ok, err := it.NextLog(&l)
		VerifAssert(err == nil, "go-nextlog-err")
		if err != nil {
			return nil
		}
		if !ok {
			break
		}
		out = c15Log(out, &l, hs)
	}
	return c15End(out, 0)
}

// c15GoRefsFor is the Go reader's side of shim_scan mode 2.
func c15GoRefsFor(rd Table, oid []byte, hs int) []byte {
	out := c15Head(nil, rd.MinUpdateIndex(), rd.MaxUpdateIndex())
	it, err := rd.RefsFor(oid)
	VerifAssert(err == nil, "go-refsfor-err")
	if err != nil {
		return nil
	}
	for {
		var r RefRecord
		ok, err := it.NextRef(&r)
		VerifAssert(err == nil, "go-refsfor-next-err")
		if err != nil {
			return nil
		}
		if !ok {
			break
		}
		out = c15Ref(out, &r, hs)
	}
	return c15End(out, 0)
}

// c15Same: the C reader's answer (mode, arg, idx) on the table equals the Go reader's dump.
func c15Same(data []byte, mode int, arg []byte, idx uint64, goDump []byte, label string) {
	if goDump == nil {
		return
	}
	got, n := VerifC_scan(data, mode, arg, idx, len(goDump)+64)
	VerifAssert(n == len(goDump), label+"-length")
	VerifAssert(n == len(goDump) && bytesEq(got, goDump), label)
}

// c15BothScan: full ref and log scans of both readers agree on the table.
func c15BothScan(data []byte, hs int) *Reader {
	rd, err := NewReader(&ByteBlockSource{data}, "t")
	VerifAssert(err == nil, "go-newreader")
	if err != nil {
		return nil
	}
	c15Same(data, 0, nil, 0, c15GoRefs(rd, "", hs), "readers-differ-on-refs")
	c15Same(data, 1, nil, ^uint64(0), c15GoLogs(rd, "", ^uint64(0), hs), "readers-differ-on-logs")
	return rd
}

// Harness_C15_go_c_logs: reflog tables written by Go are scanned by the C reader with identical records.
// bounds: 0..1 refs + 1 log (thorough 1..2 logs); names 1 byte (NUL-free), log kinds {deletion, full entry, entry with absent hashes}; hashes: 1 free byte + fixed tail; name/email 1 byte, message 0..2 ASCII bytes (NUL-free); time/update index 0..127, tz any 16 bit; Config: BlockSize 160 x Unaligned x ExactLogMessage, sha1
// assumes: strings contain no NUL byte (C strings); message bytes < 0x80
// covers: done
func Harness_C15_go_c_logs() {
	n := VerifIntRange(1, 1+VerifTier())
	cfg := Config{
		BlockSize:       160,
		Unaligned:       VerifChoose(2) == 1,
		ExactLogMessage: VerifChoose(2) == 1,
	}
	g := &genCfg{hashSize: 20, hashFree: 1, idxSmall: true, asciiMsg: true, nameLen: 1}
	var refs []*RefRecord
	if VerifChoose(2) == 1 {
		r := &RefRecord{RefName: symString(1), UpdateIndex: uint64(VerifU8() & 0x7f), Value: genHash(g, 0x11)}
		c15NulFree(r.RefName)
		refs = append(refs, r)
	}
	var logs []*LogRecord
	for i := 0; i < n; i++ {
		l := genLog(g, symString(1), VerifChoose(3))
		c15NulFree(l.RefName)
		c15NulFree(l.Name)
		c15NulFree(l.Email)
		c15NulFree(l.Message)
		if i > 0 {
			VerifAssume(specLogLess(logs[i-1], l))
		}
		logs = append(logs, l)
	}
	var want []LogRecord
	for _, l := range logs {
		want = append(want, specNormaliseLog(*l, cfg.ExactLogMessage, 20))
	}
	data, ok := writeTable(cfg, 0, 200, refs, logs)
	if !ok {
		VerifCover("rejected")
		return
	}
	c15ScanRefs(data, 0, 200, "", refs, 20, "c-ref-scan-differs")
	c15ScanLogs(data, 0, 200, "", ^uint64(0), want, 20, "c-log-scan-differs")
	VerifCover("done")
}

// c15Flags maps a Go Config to the shim's flag bits.
func c15Flags(cfg Config) int {
	f := 0
	if cfg.Unaligned {
		f |= 1
	}
	if cfg.SkipIndexObjects {
		f |= 2
	}
	if cfg.ExactLogMessage {
		f |= 4
	}
	if cfg.HashID == SHA256ID {
		f |= 8
	}
	return f
}

// c15Write runs the C writer over the records; ok=false: the C writer refused them.
func c15Write(cfg Config, min, max uint64, refs []*RefRecord, logs []*LogRecord) ([]byte, bool) {
	hs := c15HashSize(cfg)
	var desc []byte
	for _, r := range refs {
		desc = c15Ref(desc, r, hs)
	}
	for _, l := range logs {
		desc = c15Log(desc, l, hs)
	}
	bs := cfg.BlockSize
	capn := 4096 + 2*len(desc) + 2*int(bs)
	if bs == 0 {
		capn += 8192
	}
	data, n := VerifC_write(desc, bs, cfg.RestartInterval, c15Flags(cfg), min, max, capn)
	if n < 0 {
		return nil, false
	}
	VerifAssert(n <= capn, "harness-capacity")
	return data, true
}

// c15GoReads: on a C-written table the Go reader returns exactly the refs
// given to the C writer and the logs with every field but the message equal to
// the input (the two writers clean log messages differently; what is compared
// for the message is that both readers return the same bytes).
func c15GoReads(data []byte, refs []*RefRecord, want []LogRecord, hs int) *Reader {
	rd := c15BothScan(data, hs)
	if rd == nil {
		return nil
	}
	checkScanRefs(rd, refs)
	it, err := rd.SeekLog("", ^uint64(0))
	VerifAssert(err == nil, "go-seeklog-err")
	if err != nil {
		return rd
	}
	for i := range want {
		var got LogRecord
		ok, err := it.NextLog(&got)
		VerifAssert(err == nil && ok, "c-written-log-dropped")
		if !ok || err != nil {
			return rd
		}
		// (the message too: since the repair of AddLog's trimming both writers normalise messages alike)
		w := want[i]
		VerifAssert(logEq(&got, &w), "c-written-log-fields")
	}
	var got LogRecord
	ok, err := it.NextLog(&got)
	VerifAssert(err == nil && !ok, "c-written-log-extra")
	return rd
}

// Harness_C15_c_go_refs: a ref table written by C is read by Go with identical records.
// bounds: as Harness_C15_go_c_refs
// assumes: names and symref targets contain no NUL byte (C strings)
// covers: done, rejected
func Harness_C15_c_go_refs() {
	cfg := Config{
		BlockSize: []uint32{64, 0}[VerifChoose(2)],
		Unaligned: VerifChoose(2) == 1,
	}
	g := &genCfg{hashSize: 20, hashFree: 2, idxSmall: true}
	if VerifChoose(2) == 1 {
		cfg.HashID = SHA256ID
		g.hashSize = 32
	}
	min := uint64(VerifU32())
	n := VerifIntRange(1, 2)
	names := ascendingNames(n, 1, 1+VerifTier())
	var refs []*RefRecord
	for i := 0; i < n; i++ {
		c15NulFree(names[i])
		r := genRef(g, names[i], min, min+200)
		c15NulFree(r.Target)
		refs = append(refs, r)
	}
	data, ok := c15Write(cfg, min, min+200, refs, nil)
	if !ok {
		VerifCover("rejected")
		return
	}
	rd := c15GoReads(data, refs, nil, g.hashSize)
	if rd != nil {
		VerifAssert(rd.MinUpdateIndex() == min && rd.MaxUpdateIndex() == min+200, "limits-differ")
	}
	VerifCover("done")
}

// Harness_C15_c_go_logs: reflog tables written by C are read by Go with identical records.
// bounds: as Harness_C15_go_c_logs
// assumes: strings contain no NUL byte (C strings); message bytes < 0x80; the zlib model (lossless; real deflate on concrete bytes, stored blocks on symbolic bytes) stands for both zlib implementations
// covers: done, rejected
func Harness_C15_c_go_logs() {
	n := VerifIntRange(1, 1+VerifTier())
	cfg := Config{
		BlockSize:       160,
		Unaligned:       VerifChoose(2) == 1,
		ExactLogMessage: VerifChoose(2) == 1,
	}
	g := &genCfg{hashSize: 20, hashFree: 1, idxSmall: true, asciiMsg: true, nameLen: 1}
	var refs []*RefRecord
	if VerifChoose(2) == 1 {
		r := &RefRecord{RefName: symString(1), UpdateIndex: uint64(VerifU8() & 0x7f), Value: genHash(g, 0x11)}
		c15NulFree(r.RefName)
		refs = append(refs, r)
	}
	var logs []*LogRecord
	for i := 0; i < n; i++ {
		l := genLog(g, symString(1), VerifChoose(3))
		c15NulFree(l.RefName)
		c15NulFree(l.Name)
		c15NulFree(l.Email)
		c15NulFree(l.Message)
		if i > 0 {
			VerifAssume(specLogLess(logs[i-1], l))
		}
		logs = append(logs, l)
	}
	var want []LogRecord
	for _, l := range logs {
		want = append(want, specNormaliseLog(*l, cfg.ExactLogMessage, 20))
	}
	data, ok := c15Write(cfg, 0, 200, refs, logs)
	if !ok {
		VerifCover("rejected")
		return
	}
	c15GoReads(data, refs, want, 20)
	VerifCover("done")
}

// c15Noise returns n deterministic pseudo-random bytes that deflate cannot
// shrink, free of NUL and newline (so that they are a valid C string and an
// already clean log message).
func c15Noise(n int, seed uint32) string {
	b := make([]byte, n)
	x := seed
	for i := range b {
		for {
			x = x*1664525 + 1013904223
			c := byte(x >> 24)
			if c != 0 && c != '\n' {
				b[i] = c
				break
			}
		}
	}
	return string(b)
}

// Harness_C15_biglog: a log block that deflate cannot shrink (its compressed form is longer than its inflated size) crosses the language boundary in both directions.
// bounds: one reflog entry whose message is L pseudo-random bytes, L sweeping a window of 40 lengths around the point where the entry fills the block (BlockSize 256 x Unaligned); concrete bytes, so both sides run the real deflate
// assumes: Go's compress/flate stands for zlib's deflate on the C writer side (the stream lengths differ by 5 bytes: the replay runs the real zlib)
// covers: done
func Harness_C15_biglog() {
	cfg := Config{BlockSize: 256, Unaligned: VerifChoose(2) == 1, ExactLogMessage: true}
	L := 120 + VerifIntRange(0, 39)
	l := &LogRecord{RefName: "a", UpdateIndex: 1, New: make([]byte, 20), Old: make([]byte, 20), Name: "n", Email: "e", Time: 5, Message: c15Noise(L, 7)}
	copy(l.New, c15Noise(20, 11))
	copy(l.Old, c15Noise(20, 13))
	want := []LogRecord{*l}
	if VerifChoose(2) == 0 {
		data, ok := writeTable(cfg, 1, 1, nil, []*LogRecord{l})
		if !ok {
			VerifCover("toolarge")
			return
		}
		c15ScanLogs(data, 1, 1, "", ^uint64(0), want, 20, "c-log-scan-differs")
	} else {
		data, ok := c15Write(cfg, 1, 1, nil, []*LogRecord{l})
		if !ok {
			VerifCover("toolarge")
			return
		}
		c15GoReads(data, nil, want, 20)
	}
	VerifCover("done")
}

// c15Shape builds one of the shaped tables (h_shapes.go) with a few symbolic bytes.
func c15Shape(pick int) (shape, []*RefRecord, []*LogRecord) {
	which := []int{0, 1, 2, 3, 5, 7, 8, 4, 6}[pick]
	sh := pickShape(which)
	refs, logs := buildShape(sh)
	if len(refs) > 0 {
		refs[0].UpdateIndex = 1 + uint64(VerifU8()&3)
		if refs[len(refs)-1].Value != nil {
			refs[len(refs)-1].Value[2] = VerifU8()
		}
	}
	if len(logs) > 0 {
		logs[len(logs)-1].Time = uint64(VerifU8())
	}
	return sh, refs, logs
}

// c15ShapeTable writes the shape with the Go writer (dir 0) or the C writer (dir 1).
func c15ShapeTable(dir int, sh shape, refs []*RefRecord, logs []*LogRecord) []byte {
	var data []byte
	var ok bool
	if dir == 0 {
		data, ok = writeTable(sh.cfg, 1, 4, refs, logs)
	} else {
		data, ok = c15Write(sh.cfg, 1, 4, refs, logs)
	}
	VerifAssert(ok, "writer-accepts")
	return data
}

// Harness_C15_shapes_scan: shaped tables (multi-level indexes, object index, log index) written by either implementation are scanned by both readers with identical records.
// bounds: 7 shapes of h_shapes.go (thorough: all 9, adding the 90- and 150-ref tables with three index levels; 1..150 refs, 0..10 logs, block sizes 64..256, aligned/unaligned, sha1/sha256, with/without object index) x writer in {Go, C}; one ref value byte, one update index and one log time symbolic
// covers: done
func Harness_C15_shapes_scan() {
	dir := VerifChoose(2)
	sh, refs, logs := c15Shape(VerifChoose(7 + 2*VerifTier()))
	data := c15ShapeTable(dir, sh, refs, logs)
	if data == nil {
		return
	}
	rd := c15BothScan(data, c15HashSize(sh.cfg))
	if rd != nil && dir == 1 {
		checkScanRefs(rd, refs)
	}
	VerifCover("done")
}

// Harness_C15_shapes_seek: seeks on shaped tables written by either implementation return the same records from both readers.
// bounds: the same shapes x writer in {Go, C}; SeekRef key = every NUL-free string of length 0..2; SeekLog name = every NUL-free string of length 0..2 x update index any 64 bit
// assumes: keys contain no NUL byte (C strings)
// covers: refs, logs
func Harness_C15_shapes_seek() {
	dir := VerifChoose(2)
	sh, refs, logs := c15Shape(VerifChoose(7 + 2*VerifTier()))
	data := c15ShapeTable(dir, sh, refs, logs)
	if data == nil {
		return
	}
	hs := c15HashSize(sh.cfg)
	rd, err := NewReader(&ByteBlockSource{data}, "t")
	VerifAssert(err == nil, "go-newreader")
	if err != nil {
		return
	}
	key := symString(VerifIntRange(0, 2))
	c15NulFree(key)
	if VerifChoose(2) == 0 {
		// what the records given to the writer say, whichever implementation wrote them
		exp := c15Head(nil, 1, 4)
		for _, r := range refs {
			if r.RefName >= key {
				exp = c15Ref(exp, r, hs)
			}
		}
		exp = c15End(exp, 0)
		goDump := c15GoRefs(rd, key, hs)
		VerifAssert(goDump == nil || bytesEq(goDump, exp), "seekref-differs-from-input")
		c15Same(data, 0, []byte(key), 0, goDump, "readers-differ-on-seekref")
		VerifCover("refs")
	} else {
		u := VerifU64()
		exp := c15Head(nil, 1, 4)
		want := &LogRecord{RefName: key, UpdateIndex: u}
		for _, l := range logs {
			if !specLogLess(l, want) {
				n := specNormaliseLog(*l, sh.cfg.ExactLogMessage, hs)
				exp = c15Log(exp, &n, hs)
			}
		}
		exp = c15End(exp, 0)
		goDump := c15GoLogs(rd, key, u, hs)
		VerifAssert(goDump == nil || bytesEq(goDump, exp), "seeklog-differs-from-input")
		c15Same(data, 1, []byte(key), u, goDump, "readers-differ-on-seeklog")
		VerifCover("logs")
	}
}

// Harness_C15_shapes_refsfor: RefsFor on shaped tables written by either implementation returns the same refs from both readers.
// bounds: the same shapes x writer in {Go, C}; object id = the value of one of the first, a middle or the last ref, or an id occurring nowhere
// covers: done
func Harness_C15_shapes_refsfor() {
	dir := VerifChoose(2)
	sh, refs, logs := c15Shape(VerifChoose(7 + 2*VerifTier()))
	if len(refs) == 0 {
		return
	}
	data := c15ShapeTable(dir, sh, refs, logs)
	if data == nil {
		return
	}
	hs := c15HashSize(sh.cfg)
	rd, err := NewReader(&ByteBlockSource{data}, "t")
	VerifAssert(err == nil, "go-newreader")
	if err != nil {
		return
	}
	oid := make([]byte, hs)
	oid[0], oid[1] = 0xee, 0xee
	switch VerifChoose(4) {
	case 0:
		if refs[0].Value != nil {
			oid = refs[0].Value
		}
	case 1:
		if refs[len(refs)/2].Value != nil {
			oid = refs[len(refs)/2].Value
		}
	case 2:
		if refs[len(refs)-1].Value != nil {
			oid = refs[len(refs)-1].Value
		}
	}
	exp := c15Head(nil, 1, 4)
	for _, r := range refs {
		if bytesEq(r.Value, oid) || bytesEq(r.TargetValue, oid) {
			exp = c15Ref(exp, r, hs)
		}
	}
	exp = c15End(exp, 0)
	goDump := c15GoRefsFor(rd, oid, hs)
	VerifAssert(goDump == nil || bytesEq(goDump, exp), "refsfor-differs-from-input")
	c15Same(data, 2, oid, 0, goDump, "readers-differ-on-refsfor")
	VerifCover("done")
}

// ---------- stack directories ----------

// c15StackSame: the C stack's merged view of the directory (mode 0 refs from
// key, mode 1 logs from (key, idx)) equals the Go dump.
func c15StackSame(dir string, cfg Config, mode int, key string, idx uint64, goDump []byte, label string) {
	if goDump == nil {
		return
	}
	var got []byte
	var n int
	VerifAs(3)
	VerifQuiet(func() { got, n = VerifC_stack_scan(dir, c15Flags(cfg), mode, []byte(key), idx, len(goDump)+64) })
	VerifAs(0)
	VerifAssert(n == len(goDump), label+"-length")
	VerifAssert(n == len(goDump) && bytesEq(got, goDump), label)
}

// c15StackViews: both stacks open the directory and agree on refs (from key) and logs.
func c15StackViews(dir string, cfg Config, key string) *Stack {
	hs := c15HashSize(cfg)
	var st *Stack
	var refs, logs []byte
	VerifQuiet(func() {
		var err error
		st, err = NewStack(dir, cfg)
		VerifAssert(err == nil, "go-opens-directory")
		if err != nil {
			st = nil
			return
		}
		m := st.Merged()
		refs = c15GoRefs(m, key, hs)
		logs = c15GoLogs(m, "", ^uint64(0), hs)
	})
	if st == nil {
		return nil
	}
	c15StackSame(dir, cfg, 0, key, 0, refs, "stacks-differ-on-refs")
	c15StackSame(dir, cfg, 1, "", ^uint64(0), logs, "stacks-differ-on-logs")
	return st
}

// c15Txn is the canonical record stream of one transaction: private ref p<k>
// (or its deletion), shared ref s, and a reflog entry for s; the C side puts
// every record at the stack's next update index.
func c15Txn(k byte, payload byte, del bool, hs int) []byte {
	var d []byte
	p := &RefRecord{RefName: "p" + string([]byte{'0' + k})}
	if !del {
		p.Value = hashWith(hs, k, 1)
		p.Value[3] = payload
	}
	d = c15Ref(d, p, hs)
	d = c15Ref(d, &RefRecord{RefName: "s", Value: hashWith(hs, k, 2)}, hs)
	d = c15Log(d, &LogRecord{RefName: "s", Time: uint64(k), New: hashWith(hs, k, 2), Old: hashWith(hs, 0, 0), Name: "n", Email: "e", Message: "m\n"}, hs)
	return d
}

// c15COp runs one C stack operation as process 2.
func c15COp(dir string, cfg Config, op int, desc []byte) int {
	r := 0
	VerifAs(2)
	VerifQuiet(func() { r = VerifC_stack_op(dir, c15Flags(cfg), cfg.BlockSize, op, desc) })
	VerifAs(0)
	return r
}

// Harness_C15_stack_go_c: a stack directory written by the Go stack (transactions, a deletion, full or partial compaction) is opened by the C stack, whose merged view shows the same refs and reflog entries.
// bounds: 1..3 Go transactions (private ref with a symbolic payload byte, shared ref, reflog entry), optionally a deletion of the first private ref, then no compaction / CompactAll / compactRange(0,1); BlockSize 256, sha1 or sha256; ref scan from a symbolic key of 0..1 bytes, full log scan
// assumes: sequential (the two implementations take turns; concurrent Go and C processes on one directory are not explored)
// covers: done
func Harness_C15_stack_go_c() {
	cfg := stackCfg(VerifChoose(2))
	dir := VerifTempDir()
	n := VerifIntRange(1, 3)
	payload := VerifU8()
	VerifAs(1)
	st := mustOpen(dir, cfg, "open")
	if st == nil {
		return
	}
	for i := 0; i < n; i++ {
		VerifAssert(addTxnVal(st, byte(i), payload, true) == nil, "go-add")
	}
	if VerifChoose(2) == 1 {
		VerifAssert(st.Add(func(w *Writer) error {
			ui := st.NextUpdateIndex()
			w.SetLimits(ui, ui)
			return w.AddRef(&RefRecord{RefName: "p0", UpdateIndex: ui})
		}) == nil, "go-delete")
	}
	switch VerifChoose(3) {
	case 1:
		VerifAssert(st.CompactAll(nil) == nil, "go-compactall")
	case 2:
		if len(st.stack) >= 2 {
			_, err := st.compactRange(0, 1, nil)
			VerifAssert(err == nil, "go-compactrange")
		}
	}
	st.Close()
	VerifAs(0)
	key := symString(VerifIntRange(0, 1))
	c15NulFree(key)
	c15StackViews(dir, cfg, key)
	VerifCover("done")
}

// Harness_C15_stack_c_go: a stack directory written by the C stack (transactions, a deletion, automatic or full compaction) is opened by the Go stack, whose merged view shows the same refs and reflog entries, and they are the ones the transactions say.
// bounds: 1..3 C transactions as in Harness_C15_stack_go_c, optionally a deletion, each with or without the automatic compaction of reftable_stack_add, then optionally reftable_stack_compact_all; BlockSize 256, sha1 or sha256
// assumes: sequential, as above
// covers: done
func Harness_C15_stack_c_go() {
	cfg := stackCfg(VerifChoose(2))
	hs := c15HashSize(cfg)
	dir := VerifTempDir()
	n := VerifIntRange(1, 3)
	payload := VerifU8()
	auto := VerifChoose(2)
	// the directory exists but is empty: the C stack creates tables.list
	for i := 0; i < n; i++ {
		VerifAssert(c15COp(dir, cfg, auto, c15Txn(byte(i), payload, false, hs)) == 0, "c-add")
	}
	del := VerifChoose(2) == 1
	if del {
		VerifAssert(c15COp(dir, cfg, auto, c15Txn(0, 0, true, hs)) == 0, "c-delete")
	}
	if VerifChoose(2) == 1 {
		VerifAssert(c15COp(dir, cfg, 2, nil) == 0, "c-compactall")
	}
	key := symString(VerifIntRange(0, 1))
	c15NulFree(key)
	st := c15StackViews(dir, cfg, "")
	if st == nil {
		return
	}
	VerifQuiet(func() {
		got := snapshot(st, "go-view-of-c-stack")
		for i := 0; i < n; i++ {
			v, ok := got.refs["p"+string([]byte{'0' + byte(i)})]
			if i == 0 && del {
				VerifAssert(!ok, "deleted-ref-visible")
			} else {
				VerifAssert(ok && v == byte(i), "c-written-ref-missing")
			}
		}
		last := byte(n - 1)
		if del {
			last = 0
		}
		VerifAssert(got.refs["s"] == last, "c-written-shared-ref")
		want := n
		if del {
			want++
		}
		VerifAssert(got.logs == want, "c-written-log-count")
	})
	c15StackSame(dir, cfg, 0, key, 0, c15GoRefsQuiet(st, key, hs), "stacks-differ-on-seekref")
	VerifCover("done")
}

func c15GoRefsQuiet(st *Stack, key string, hs int) []byte {
	var d []byte
	VerifQuiet(func() { d = c15GoRefs(st.Merged(), key, hs) })
	return d
}

// Harness_C15_stack_mixed: the two implementations take turns on one directory: each sees the other's transactions and compactions.
// bounds: 4 steps, each one of {Go Add, C add, Go CompactAll, C compact_all, C add with automatic compaction, Go Add with automatic compaction, C auto_compact, C clean} (steps 1 and 2 are additions), then both merged views are compared and checked against the transactions; BlockSize 256, sha1
// assumes: sequential, as above
// covers: done
func Harness_C15_stack_mixed() {
	cfg := stackCfg(0)
	hs := 20
	dir := VerifTempDir()
	payload := VerifU8()
	adds := 0
	for step := 0; step < 4; step++ {
		var op int
		if step < 2 {
			op = []int{0, 1}[VerifChoose(2)]
		} else {
			op = VerifChoose(8)
		}
		switch op {
		case 0, 5: // Go adds
			VerifAs(1)
			st, err := NewStack(dir, cfg)
			VerifAssert(err == nil, "go-open")
			if err != nil {
				return
			}
			st.disableAutoCompact = op == 0
			VerifAssert(addTxnVal(st, byte(adds), payload, true) == nil, "go-add")
			st.Close()
			VerifAs(0)
			adds++
		case 1, 4: // C adds
			o := 0
			if op == 4 {
				o = 1
			}
			VerifAssert(c15COp(dir, cfg, o, c15Txn(byte(adds), payload, false, hs)) == 0, "c-add")
			adds++
		case 2:
			VerifAs(1)
			st, err := NewStack(dir, cfg)
			VerifAssert(err == nil, "go-open")
			if err != nil {
				return
			}
			VerifAssert(st.CompactAll(nil) == nil, "go-compactall")
			st.Close()
			VerifAs(0)
		case 3:
			VerifAssert(c15COp(dir, cfg, 2, nil) == 0, "c-compactall")
		case 6:
			VerifAssert(c15COp(dir, cfg, 3, nil) == 0, "c-autocompact")
		case 7:
			VerifAssert(c15COp(dir, cfg, 4, nil) == 0, "c-clean")
		}
	}
	st := c15StackViews(dir, cfg, "")
	if st == nil {
		return
	}
	VerifQuiet(func() {
		got := snapshot(st, "final")
		VerifAssert(len(got.refs) == adds+1, "ref-count")
		for i := 0; i < adds; i++ {
			v, ok := got.refs["p"+string([]byte{'0' + byte(i)})]
			VerifAssert(ok && v == byte(i), "transaction-lost")
			VerifAssert(got.payload["p"+string([]byte{'0' + byte(i)})] == payload, "payload-altered")
		}
		VerifAssert(got.refs["s"] == byte(adds-1), "shared-ref")
		VerifAssert(got.logs == adds, "log-count")
	})
	VerifCover("done")
}

// Harness_C15_utf8names: names that are UTF-8 text (neighbouring keys whose first difference is a continuation byte of a multi-byte sequence) cross the language boundary like any other bytes.
// bounds: 5 refs with concrete names "caf\xc3\xa8", "caf\xc3\xa9", "x\xe6\x97\xa5", "x\xe6\x97\xa6", "x\xe6\x9c\xac" (value byte symbolic); BlockSize {64, default} x Unaligned x RestartInterval {1, 16}; writer in {Go, C}; key = any of the names, a proper prefix of one, or empty; both readers against each other and against the input
// assumes: as Harness_C15_small_seek
// covers: done
func Harness_C15_utf8names() {
	dir := VerifChoose(2)
	cfg := Config{BlockSize: []uint32{64, 0}[VerifChoose(2)], Unaligned: VerifChoose(2) == 1, RestartInterval: 1 - VerifChoose(2)}
	names := []string{"caf\xc3\xa8", "caf\xc3\xa9", "x\xe6\x97\xa5", "x\xe6\x97\xa6", "x\xe6\x9c\xac"}
	var refs []*RefRecord
	for i, nm := range names {
		v := hashWith(20, byte(i+1), 2)
		if i == 0 {
			v[2] = VerifU8()
		}
		refs = append(refs, &RefRecord{RefName: nm, UpdateIndex: 1, Value: v})
	}
	data, ok := c15SmallTable(dir, cfg, 1, 1, refs)
	VerifAssert(ok, "writer-accepts")
	if !ok {
		return
	}
	rd, err := NewReader(&ByteBlockSource{data}, "t")
	VerifAssert(err == nil, "go-newreader")
	if err != nil {
		return
	}
	keys := []string{"", "caf\xc3", "x\xe6\x97", "x\xe6"}
	keys = append(keys, names...)
	key := keys[VerifChoose(len(keys))]
	exp := c15Head(nil, 1, 1)
	for _, r := range refs {
		if r.RefName >= key {
			exp = c15Ref(exp, r, 20)
		}
	}
	exp = c15End(exp, 0)
	goDump := c15GoRefs(rd, key, 20)
	VerifAssert(goDump == nil || bytesEq(goDump, exp), "seekref-differs-from-input")
	c15Same(data, 0, []byte(key), 0, goDump, "readers-differ-on-seekref")
	VerifCover("done")
}

// Harness_C15_stack_partial: a compaction by the C implementation of a range above the bottom table (automatic compaction of small tables on top of a large one) leaves a directory the Go implementation opens and reads alike.
// bounds: Go adds a table of 30 refs, then two small transactions are added (each by Go or by C, without compaction), then C runs auto_compact or adds a third small transaction with automatic compaction; then both merged views are compared and checked against the transactions; BlockSize 256, sha1
// assumes: sequential, as above
// covers: done
func Harness_C15_stack_partial() {
	cfg := stackCfg(0)
	hs := 20
	dir := VerifTempDir()
	payload := VerifU8()
	VerifAs(1)
	st, err := NewStack(dir, cfg)
	VerifAssert(err == nil, "go-open")
	if err != nil {
		return
	}
	st.disableAutoCompact = true
	VerifAssert(st.Add(func(w *Writer) error {
		ui := st.NextUpdateIndex()
		w.SetLimits(ui, ui)
		for i := 0; i < 30; i++ {
			name := "big" + string([]byte{'a' + byte(i/26), 'a' + byte(i%26)})
			if err := w.AddRef(&RefRecord{RefName: name, UpdateIndex: ui, Value: hashWith(hs, byte(i), 8)}); err != nil {
				return err
			}
		}
		return nil
	}) == nil, "go-add-big")
	st.Close()
	VerifAs(0)
	adds := 0
	for step := 0; step < 2; step++ {
		if VerifChoose(2) == 0 {
			VerifAs(1)
			st, err := NewStack(dir, cfg)
			VerifAssert(err == nil, "go-open")
			if err != nil {
				return
			}
			st.disableAutoCompact = true
			VerifAssert(addTxnVal(st, byte(adds), payload, true) == nil, "go-add")
			st.Close()
			VerifAs(0)
		} else {
			VerifAssert(c15COp(dir, cfg, 0, c15Txn(byte(adds), payload, false, hs)) == 0, "c-add")
		}
		adds++
	}
	if VerifChoose(2) == 0 {
		VerifAssert(c15COp(dir, cfg, 3, nil) == 0, "c-autocompact")
	} else {
		VerifAssert(c15COp(dir, cfg, 1, c15Txn(byte(adds), payload, false, hs)) == 0, "c-add")
		adds++
	}
	fin := c15StackViews(dir, cfg, "")
	if fin == nil {
		return
	}
	VerifQuiet(func() {
		got := snapshot(fin, "final")
		VerifAssert(len(got.refs) == 30+adds+1, "ref-count")
		for i := 0; i < adds; i++ {
			v, ok := got.refs["p"+string([]byte{'0' + byte(i)})]
			VerifAssert(ok && v == byte(i), "transaction-lost")
		}
		VerifAssert(got.refs["s"] == byte(adds-1), "shared-ref")
	})
	VerifCover("done")
}

// c15SmallTable writes the refs with the Go writer (dir 0) or the C writer (dir 1); ok=false: refused.
func c15SmallTable(dir int, cfg Config, min, max uint64, refs []*RefRecord) ([]byte, bool) {
	if dir == 0 {
		return writeTable(cfg, min, max, refs, nil)
	}
	return c15Write(cfg, min, max, refs, nil)
}

// Harness_C15_small_seek: SeekRef on small tables with symbolic names, written by either implementation, returns the same suffix from both readers, and it is the suffix of the input.
// bounds: 1..3 refs (value or deletion) with ascending names of 1 byte (thorough 1..2 bytes), all NUL-free byte values; BlockSize {64, 4096} x Unaligned x RestartInterval {1, 16}; key = every NUL-free string of length 0..2; writer in {Go, C}
// assumes: names and keys contain no NUL byte (C strings)
// covers: done
func Harness_C15_small_seek() {
	dir := VerifChoose(2)
	cfg := Config{BlockSize: []uint32{64, 0}[VerifChoose(2)], Unaligned: VerifChoose(2) == 1, RestartInterval: 1 - VerifChoose(2)}
	g := &genCfg{hashSize: 20, hashFree: 1, idxSmall: true}
	n := VerifIntRange(1, 3)
	names := ascendingNames(n, 1, 1+VerifTier())
	var refs []*RefRecord
	for i := 0; i < n; i++ {
		c15NulFree(names[i])
		r := &RefRecord{RefName: names[i], UpdateIndex: 1}
		if VerifChoose(2) == 1 {
			r.Value = genHash(g, 0x11)
		}
		refs = append(refs, r)
	}
	data, ok := c15SmallTable(dir, cfg, 1, 1, refs)
	VerifAssert(ok, "writer-accepts")
	if !ok {
		return
	}
	rd, err := NewReader(&ByteBlockSource{data}, "t")
	VerifAssert(err == nil, "go-newreader")
	if err != nil {
		return
	}
	key := symString(VerifIntRange(0, 2))
	c15NulFree(key)
	exp := c15Head(nil, 1, 1)
	for _, r := range refs {
		if r.RefName >= key {
			exp = c15Ref(exp, r, 20)
		}
	}
	exp = c15End(exp, 0)
	goDump := c15GoRefs(rd, key, 20)
	VerifAssert(goDump == nil || bytesEq(goDump, exp), "seekref-differs-from-input")
	c15Same(data, 0, []byte(key), 0, goDump, "readers-differ-on-seekref")
	VerifCover("done")
}

// Harness_C15_small_refsfor: RefsFor on small tables with symbolic object ids, written by either implementation, returns the same refs from both readers, and they are the refs of the input that point at the object.
// bounds: 2 refs (thorough 2..3) named a,b,c; object ids X,Y symbolic in their first 2 bytes, or (SHA-256, block size 128) in their last 2 bytes (X != Y) plus a fixed id; each ref's value / peeled value among {X, Y, fixed, deletion}; query X, Y or an id occurring nowhere; min update index 5; BlockSize 96/128 x Unaligned x SkipIndexObjects; writer in {Go, C}
// covers: done
func Harness_C15_small_refsfor() {
	dir := VerifChoose(2)
	cfg := Config{BlockSize: 96, Unaligned: VerifChoose(2) == 1, SkipIndexObjects: VerifChoose(2) == 1, RestartInterval: 1}
	hs, s0, s1 := 20, 0, 1
	if VerifChoose(2) == 1 {
		// SHA-256 ids that differ only in their last two bytes
		cfg.HashID = SHA256ID
		cfg.BlockSize = 128
		hs, s0, s1 = 32, 30, 31
	}
	x, y, z, f := make([]byte, hs), make([]byte, hs), make([]byte, hs), make([]byte, hs)
	for i := 0; i < hs; i++ {
		x[i], y[i], z[i], f[i] = 0x77, 0x77, 0x77, 0x70
	}
	x[s0], x[s1], y[s0], y[s1], z[s0], z[s1] = VerifU8(), VerifU8(), VerifU8(), VerifU8(), VerifU8(), VerifU8()
	VerifAssume(!bytesEq(x, y))
	VerifAssume(!bytesEq(x, z))
	VerifAssume(!bytesEq(y, z))
	ids := [][]byte{x, y, f}
	n := VerifIntRange(2, 2+VerifTier())
	var refs []*RefRecord
	for i := 0; i < n; i++ {
		r := &RefRecord{RefName: string([]byte{'a' + byte(i)}), UpdateIndex: 5 + uint64(i%2)}
		switch c := VerifChoose(5); c {
		case 0, 1, 2:
			r.Value = ids[c]
		case 3:
			r.Value = f
			r.TargetValue = ids[VerifChoose(2)]
		}
		refs = append(refs, r)
	}
	data, ok := c15SmallTable(dir, cfg, 5, 6, refs)
	VerifAssert(ok, "writer-accepts")
	if !ok {
		return
	}
	rd, err := NewReader(&ByteBlockSource{data}, "t")
	VerifAssert(err == nil, "go-newreader")
	if err != nil {
		return
	}
	q := [][]byte{x, y, z}[VerifChoose(3)]
	exp := c15Head(nil, 5, 6)
	for _, r := range refs {
		if bytesEq(r.Value, q) || bytesEq(r.TargetValue, q) {
			exp = c15Ref(exp, r, hs)
		}
	}
	exp = c15End(exp, 0)
	goDump := c15GoRefsFor(rd, q, hs)
	VerifAssert(goDump == nil || bytesEq(goDump, exp), "refsfor-differs-from-input")
	c15Same(data, 2, q, 0, goDump, "readers-differ-on-refsfor")
	VerifCover("done")
}

// Harness_C15_stack_after_crash: whatever a Go process that is abandoned in the middle of a transaction or a compaction leaves behind (lock files, temporary files, a half-written list lock), the C stack still opens the directory, sees a committed state - the same one Go sees - and a C transaction either commits or is refused with a lock error.
// bounds: stack of 2 Go transactions; a Go process running Add, Add with automatic compaction or CompactAll is abandoned immediately before any of its filesystem steps (or completes); then the C stack scans, adds one transaction, and both merged views are compared
// assumes: sequential after the crash, as above
// covers: crashed, completed
func Harness_C15_stack_after_crash() {
	cfg := stackCfg(0)
	hs := 20
	dir := VerifTempDir()
	seedStack(dir, cfg, 2)
	VerifAs(1)
	st := mustOpen(dir, cfg, "open")
	VerifAs(0)
	if st == nil {
		return
	}
	op := VerifChoose(3)
	VerifSpawnCrashable(func() {
		switch op {
		case 0:
			addTxn(st, 7, true)
		case 1:
			st.disableAutoCompact = false
			addTxn(st, 7, true)
		case 2:
			st.CompactAll(nil)
		}
	})
	VerifRun(0)
	if VerifCrashed() {
		VerifCover("crashed")
	} else {
		VerifCover("completed")
	}
	c15StackViews(dir, cfg, "")
	r := c15COp(dir, cfg, 0, c15Txn(8, 1, false, hs))
	VerifAssert(r == 0 || r == -5, "c-add-after-go-crash-fails-otherwise")
	fin := c15StackViews(dir, cfg, "")
	if fin != nil && r == 0 {
		VerifQuiet(func() {
			got := snapshot(fin, "after-c-add")
			VerifAssert(got.refs["p8"] == 8 && got.refs["s"] == 8, "c-transaction-lost")
			VerifAssert(got.refs["p0"] == 0 && got.refs["p1"] == 1, "go-transaction-lost")
		})
	}
}
