//go:build verif

package reftable

import "io/ioutil"

// C14: every emitted table is well-formed as judged by the independent
// decoder of spec_decode.go, and decoding by the format rules alone yields
// the records given to the writer.

func specCompare(data []byte, cfg Config, refs []*RefRecord, logs []*LogRecord) {
	hs := 20
	if cfg.HashID == SHA256ID {
		hs = 32
	}
	t := specDecodeTable(data)
	VerifAssert(t.ok, "wf-decodes")
	if !t.ok {
		return
	}
	VerifAssert(t.hashSize == hs, "wf-hash-size")
	wantBS := cfg.BlockSize
	if wantBS == 0 {
		wantBS = 4096
	}
	VerifAssert(t.blockSize == wantBS, "wf-block-size-field")
	gotRefs, gotLogs := specCheckStructure(&t)
	VerifAssert(len(gotRefs) == len(refs), "spec-ref-count")
	for i := 0; i < len(refs) && i < len(gotRefs); i++ {
		VerifAssert(refEq(&gotRefs[i], refs[i]), "spec-ref-record")
	}
	VerifAssert(len(gotLogs) == len(logs), "spec-log-count")
	for i := 0; i < len(logs) && i < len(gotLogs); i++ {
		want := specNormaliseLog(*logs[i], cfg.ExactLogMessage, hs)
		VerifAssert(logEq(&gotLogs[i], &want), "spec-log-record")
	}
}

// Harness_C14_refs: tables of symbolic refs decode by the format rules to the input.
// bounds: as Harness_C01_table_refs with 1..2 refs: names 1..2 bytes, 4 kinds, BlockSize {64,96,4096} x Unaligned x SkipIndexObjects x RestartInterval {16,1} x HashID
// covers: done, rejected
func Harness_C14_refs() {
	cfg := Config{
		BlockSize:        []uint32{64, 96, 0}[VerifChoose(3)],
		Unaligned:        VerifChoose(2) == 1,
		SkipIndexObjects: VerifChoose(2) == 1,
		RestartInterval:  VerifChoose(2),
	}
	g := &genCfg{hashSize: 20, hashFree: 2, idxSmall: true}
	if VerifChoose(2) == 1 {
		cfg.HashID = SHA256ID
		g.hashSize = 32
	}
	min := uint64(VerifU32())
	n := VerifIntRange(1, 2)
	names := ascendingNames(n, 1, 2)
	var refs []*RefRecord
	for i := 0; i < n; i++ {
		refs = append(refs, genRef(g, names[i], min, min+200))
	}
	data, ok := writeTable(cfg, min, min+200, refs, nil)
	if !ok {
		VerifCover("rejected")
		return
	}
	specCompare(data, cfg, refs, nil)
	VerifCover("done")
}

// Harness_C14_logs: tables with reflogs decode by the format rules to the input.
// bounds: 0..1 refs + 1..2 logs as Harness_C01_table_logs (BlockSize 160, Unaligned x ExactLogMessage; thorough: sha256 and 4096)
// covers: done
func Harness_C14_logs() {
	cfg := Config{
		BlockSize:       []uint32{160, 0}[VerifChoose(1+VerifTier())],
		Unaligned:       VerifChoose(2) == 1,
		ExactLogMessage: VerifChoose(2) == 1,
	}
	g := &genCfg{hashSize: 20, hashFree: 1, idxSmall: true, asciiMsg: true, nameLen: 1}
	if VerifChoose(1+VerifTier()) == 1 {
		cfg.HashID = SHA256ID
		g.hashSize = 32
	}
	var refs []*RefRecord
	if VerifChoose(2) == 1 {
		refs = append(refs, &RefRecord{RefName: symString(1), UpdateIndex: uint64(VerifU8() & 0x7f), Value: genHash(g, 0x11)})
	}
	n := VerifIntRange(1, 2)
	var logs []*LogRecord
	for i := 0; i < n; i++ {
		l := genLog(g, symString(1), VerifChoose(3))
		if i > 0 {
			VerifAssume(specLogLess(logs[i-1], l))
		}
		logs = append(logs, l)
	}
	data, ok := writeTable(cfg, 0, 200, refs, logs)
	if !ok {
		// the only legitimate refusal here: a message that is not a single line, when exact messages were not asked for
		multi := false
		for _, l := range logs {
			m := l.Message
			for len(m) > 0 && m[len(m)-1] == '\n' {
				m = m[:len(m)-1]
			}
			for k := 0; k < len(m); k++ {
				if m[k] == '\n' {
					multi = true
				}
			}
		}
		VerifAssert(multi && !cfg.ExactLogMessage, "writer-accepts")
		return
	}
	specCompare(data, cfg, refs, logs)
	VerifCover("done")
}

// Harness_C14_loglimits: reflog entries, like refs, carry update indices inside the range the header declares.
// bounds: limits [lo, hi] with lo, hi in 0..3, lo <= hi; one reflog entry whose update index is any of 0..4; BlockSize 160, Unaligned both
// covers: done
func Harness_C14_loglimits() {
	cfg := Config{BlockSize: 160, Unaligned: VerifChoose(2) == 1}
	lo := uint64(VerifChoose(4))
	hi := lo + uint64(VerifChoose(4))
	if hi > 3 {
		return
	}
	idx := uint64(VerifChoose(5))
	l := &LogRecord{RefName: "a", UpdateIndex: idx, Time: 3, New: hashWith(20, 1, 1), Old: hashWith(20, 0, 0), Message: "m\n"}
	data, ok := writeTable(cfg, lo, hi, nil, []*LogRecord{l})
	if ok {
		t := specDecodeTable(data)
		VerifAssert(t.ok && t.min == lo && t.max == hi, "wf-decodes")
		specCompare(data, cfg, nil, []*LogRecord{l})
		VerifAssert(idx >= lo && idx <= hi, "log-update-index-outside-header-range")
	} else {
		VerifAssert(idx < lo || idx > hi, "log-inside-limits-refused")
	}
	VerifCover("done")
}

// Harness_C14_shapes: shaped tables (multi-level indexes, object index, log index, padding) are well-formed.
// bounds: the shapes of Harness_C01_table_shapes (6 quick, 8 thorough) plus a table of 44 refs sharing 3 object ids (position lists of 9..20 entries in the object index), tables of 70 and 170 one-ref blocks all pointing at one object (a complete list of 70 positions; a list of about 145 that does not fit and is omitted), and two tables with a ref index but without any object id (deletions and symbolic refs only: no object section)
// covers: done
func Harness_C14_shapes() {
	n := nShapesQuick
	if VerifTier() > 0 {
		n = nShapesAll
	}
	extra := []int{8, 9, 10, 11, 12} // shared objects (multi-entry position lists), one object in 70 / 130 ref blocks, tables without any object id
	which := VerifChoose(n + len(extra))
	if which >= n {
		which = extra[which-n]
	}
	sh := pickShape(which)
	refs, logs := buildShape(sh)
	if len(refs) > 0 && refs[len(refs)-1].Value != nil {
		refs[len(refs)-1].Value[2] = VerifU8()
	}
	data, ok := writeTable(sh.cfg, 1, 4, refs, logs)
	VerifAssert(ok, "writer-accepts")
	if !ok {
		return
	}
	specCompare(data, sh.cfg, refs, logs)
	VerifCover("done")
}

// Harness_C14_compaction: tables written by compaction are well-formed and hold exactly the merged records of their inputs.
// bounds: as Harness_C07_pairs (2 tables over names a,b, all kinds, reflog entries and deletions), every range; ExactLogMessage both
// covers: done, empty
func Harness_C14_compaction() {
	cfg := Config{BlockSize: 256, ExactLogMessage: VerifChoose(2) == 1, HashID: SHA1ID}
	const k = 2
	var specs []tabSpec
	var readers []*Reader
	for t := 0; t < k; t++ {
		ts := genTabSpec(t, true, 20)
		specs = append(specs, ts)
		readers = append(readers, writeTabSpec(cfg, ts, uint64(t+1), uint64(t+1), string([]byte{'t', '0' + byte(t)})))
	}
	first := VerifIntRange(0, k-1)
	last := VerifIntRange(first, k-1)
	out, data := compactOnce(cfg, readers, first, last, nil)
	if out == nil {
		return
	}
	var rt [][]RefRecord
	var lt [][]LogRecord
	for t := first; t <= last; t++ {
		rt = append(rt, specs[t].refs)
		var ls []LogRecord
		for _, l := range specs[t].logs {
			ls = append(ls, specNormaliseLog(l, cfg.ExactLogMessage, 20))
		}
		lt = append(lt, ls)
	}
	var wantRefs []*RefRecord
	for _, r := range specOverlayRefs(rt) {
		r := r
		if first == 0 && specRefIsDeletion(&r) {
			continue
		}
		wantRefs = append(wantRefs, &r)
	}
	var wantLogs []*LogRecord
	for _, l := range specOverlayLogs(lt) {
		l := l
		wantLogs = append(wantLogs, &l)
	}
	if len(wantRefs) == 0 && len(wantLogs) == 0 {
		VerifAssert(len(out) == k-(last-first+1), "empty-compaction-adds-no-table")
		VerifCover("empty")
		return
	}
	// entries were normalised when first written: compare them as exact
	cfgExact := cfg
	cfgExact.ExactLogMessage = true
	specCompare(data, cfgExact, wantRefs, wantLogs)
	t := specDecodeTable(data)
	VerifAssert(t.min == uint64(first+1) && t.max == uint64(last+1), "compacted-table-limits")
	VerifCover("done")
}

// Harness_C14_stack: every table file a stack leaves behind (plain additions, auto-compacted and fully compacted tables) is well-formed.
// bounds: sequential: 3 additions (the last with auto-compaction) and a CompactAll on the (modelled) filesystem, hash sha1 or sha256; every *.ref file in the directory afterwards is decoded by the independent decoder
// covers: done
func Harness_C14_stack() {
	cfg := stackCfg(VerifChoose(2))
	dir := VerifTempDir()
	st := mustOpen(dir, cfg, "open")
	if st == nil {
		return
	}
	VerifAssert(addTxnVal(st, 1, VerifU8(), true) == nil, "add")
	VerifAssert(addTxnVal(st, 2, VerifU8(), true) == nil, "add")
	stage := VerifChoose(3)
	if stage >= 1 {
		st.disableAutoCompact = false
		VerifAssert(addTxnVal(st, 3, VerifU8(), true) == nil, "add-auto")
	}
	if stage >= 2 {
		VerifAssert(addTxn(st, 4, false) == nil, "add")
		VerifAssert(st.CompactAll(nil) == nil, "compactall")
	}
	n := 0
	for _, nm := range VerifDirNames() {
		if len(nm) < 4 || nm[len(nm)-4:] != ".ref" {
			continue
		}
		var data []byte
		var err error
		path := dir + "/" + nm
		VerifQuiet(func() { data, err = ioutil.ReadFile(path) })
		VerifAssert(err == nil, "read-table-file")
		t := specDecodeTable(data)
		VerifAssert(t.ok, "wf-decodes")
		refs, logs := specCheckStructure(&t)
		VerifAssert(len(refs)+len(logs) > 0, "table-file-not-empty")
		n++
	}
	VerifAssert(n == len(st.stack), "one-file-per-listed-table")
	VerifCover("done")
}

// Harness_C14_maxrestarts: a block with more records than the 16-bit restart count can hold is still well-formed.
// bounds: one concrete block of 66000 deletion refs with restart interval 1 (block size 2^20), decoded by the independent decoder: restart count field, ascending restart offsets each at a full key, ascending keys, all 66000 records
// covers: done
func Harness_C14_maxrestarts() {
	const n = 66000
	VerifMaxSteps(900000000)
	data, name := bigBlock(n)
	blk, ok := specDecodeBlock(data, 0, 0, 20, len(data))
	VerifAssert(ok, "wf-block-decodes")
	if !ok {
		return
	}
	VerifAssert(len(blk.recs) == n, "wf-record-count")
	if len(blk.recs) == n {
		VerifAssert(blk.recs[0].key == name(0) && blk.recs[n-1].key == name(n-1) && blk.recs[40000].key == name(40000), "wf-record-names")
	}
	VerifCover("done")
}
