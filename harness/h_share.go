//go:build verif

package reftable

import (
	"math"
)

// C19: readers and merged views can be shared by goroutines.
//
// Decided through a sufficient frame condition over all paths: after
// VerifFreeze marks everything reachable from the shared object, no read
// operation may write to it (stores, map updates, in-place appends, copies
// into it, non-positional file operations), unless under a mutex that is
// itself part of the shared object.  Natively VerifShared runs the two calls
// in two goroutines and the replay is built with -race.

func digestRefs(it *Iterator, err error) string {
	if err != nil {
		return "err"
	}
	s := ""
	for i := 0; i < 400; i++ {
		var r RefRecord
		ok, err := it.NextRef(&r)
		if err != nil {
			return s + "!err"
		}
		if !ok {
			return s
		}
		s += r.RefName + ";"
	}
	return s + "..."
}

func digestLogs(it *Iterator, err error) string {
	if err != nil {
		return "err"
	}
	s := ""
	for i := 0; i < 400; i++ {
		var l LogRecord
		ok, err := it.NextLog(&l)
		if err != nil {
			return s + "!err"
		}
		if !ok {
			return s
		}
		s += l.RefName + ";"
	}
	return s + "..."
}

// readWorkload runs a mixed read workload on a shared table.
func readWorkload(tab Table, key string, oid []byte) string {
	d := digestRefs(tab.SeekRef(key))
	d += "|" + digestRefs(tab.SeekRef(""))
	d += "|" + digestLogs(tab.SeekLog(key, math.MaxUint64))
	d += "|" + digestRefs(tab.RefsFor(oid))
	return d
}

// Harness_C19_reader: concurrent readers of one in-memory table reader never write shared state and see the same results.
// bounds: shapes 1,2,4,5 of the shaped tables (aligned index, unaligned with object index and logs, multi-level, sha256); lookup key = every string of length 0..2; two runs of SeekRef(key)+scan, full scan, SeekLog, RefsFor
// covers: done
func Harness_C19_reader() {
	sh := pickShape([]int{1, 2, 4, 5}[VerifChoose(4)])
	refs, logs := buildShape(sh)
	data, ok := writeTable(sh.cfg, 1, 4, refs, logs)
	VerifAssert(ok, "writer-accepts")
	rd, err := NewReader(&ByteBlockSource{data}, "t")
	VerifAssert(err == nil, "newreader")
	key := symString(VerifIntRange(0, 2))
	oid := make([]byte, rd.hashSize)
	oid[0] = 3
	VerifFreeze(rd)
	VerifShared(func(i int) string { return readWorkload(rd, key, oid) })
	VerifCover("done")
}

// Harness_C19_stack: the merged view of a stack (file-backed readers) is read-only for readers.
// bounds: a stack of 3 tables on the (modelled) filesystem; two runs of the read workload on Stack.Merged(); lookup key of 0..1 bytes
// covers: done
func Harness_C19_stack() {
	cfg := stackCfg(0)
	dir := VerifTempDir()
	seedStack(dir, cfg, 3)
	st := mustOpen(dir, cfg, "open")
	if st == nil {
		return
	}
	m := st.Merged()
	key := symString(VerifIntRange(0, 1))
	oid := hashWith(20, 1, 1)
	VerifFreeze(m)
	VerifShared(func(i int) string { return readWorkload(m, key, oid) })
	VerifCover("done")
}
