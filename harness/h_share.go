//go:build verif

package reftable

import (
	"math"
)

// C19: readers and merged views can be shared by goroutines.
//
// Decided through a sufficient frame condition over all paths: after
// VerifFreeze marks everything reachable from the shared object, no read
// operation may write to it (stores, map updates, in-place appends, copies
// into it, non-positional file operations), unless under a mutex that is
// itself part of the shared object.  Natively VerifShared runs the two calls
// in two goroutines and the replay is built with -race.

func digestRefs(it *Iterator, err error) string {
	if err != nil {
		return "err"
	}
	s := ""
	for i := 0; i < 400; i++ {
		var r RefRecord
		ok, err := it.NextRef(&r)
		if err != nil {
			return s + "!err"
		}
		if !ok {
			return s
		}
		s += r.RefName + ";"
	}
	return s + "..."
}

func digestLogs(it *Iterator, err error) string {
	if err != nil {
		return "err"
	}
	s := ""
	for i := 0; i < 400; i++ {
		var l LogRecord
		ok, err := it.NextLog(&l)
		if err != nil {
			return s + "!err"
		}
		if !ok {
			return s
		}
		s += l.RefName + ";"
	}
	return s + "..."
}

// readWorkload runs a mixed read workload on a shared table.
func readWorkload(tab Table, key string, oid []byte) string {
	d := digestRefs(tab.SeekRef(key))
	d += "|" + digestRefs(tab.SeekRef(""))
	d += "|" + digestLogs(tab.SeekLog(key, math.MaxUint64))
	d += "|" + digestRefs(tab.RefsFor(oid))
	return d
}

// Harness_C19_reader: concurrent readers of one in-memory table reader never write shared state and see the same results.
// bounds: shapes 1,2,4,5 of the shaped tables (aligned index, unaligned with object index and logs, multi-level, sha256); lookup key = every string of length 0..2; two runs of SeekRef(key)+scan, full scan, SeekLog, RefsFor
// covers: done
func Harness_C19_reader() {
	sh := pickShape([]int{1, 2, 4, 5}[VerifChoose(4)])
	refs, logs := buildShape(sh)
	data, ok := writeTable(sh.cfg, 1, 4, refs, logs)
	VerifAssert(ok, "writer-accepts")
	rd, err := NewReader(&ByteBlockSource{data}, "t")
	VerifAssert(err == nil, "newreader")
	key := symString(VerifIntRange(0, 2))
	oid := make([]byte, rd.hashSize)
	oid[0] = 3
	VerifFreeze(rd)
	VerifShared(func(i int) string { return readWorkload(rd, key, oid) })
	VerifCover("done")
}

// Harness_C19_stack: the merged view of a stack (file-backed readers) is read-only for readers.
// bounds: a stack of 3 tables on the (modelled) filesystem; two runs of the read workload on Stack.Merged(); lookup key of 0..1 bytes
// covers: done
func Harness_C19_stack() {
	cfg := stackCfg(0)
	dir := VerifTempDir()
	seedStack(dir, cfg, 3)
	st := mustOpen(dir, cfg, "open")
	if st == nil {
		return
	}
	m := st.Merged()
	key := symString(VerifIntRange(0, 1))
	oid := hashWith(20, 1, 1)
	VerifFreeze(m)
	VerifShared(func(i int) string { return readWorkload(m, key, oid) })
	VerifCover("done")
}

// Harness_C19_reader_reread: as Harness_C19_reader, on tables whose log block is so full that the reader has to fetch it a second time with a larger size (the path that handles blocks larger than the first guess).
// bounds: 2 refs + 3 reflog entries of one name, BlockSize 256 x Unaligned; the message length of the last entry sweeps 56..95, so the inflated size of the first log block takes every value in a window reaching up to the block size, and further log blocks follow it; lookup key of 0..1 bytes
// covers: done
func Harness_C19_reader_reread() {
	cfg := Config{BlockSize: 256, Unaligned: VerifChoose(2) == 1}
	refs := []*RefRecord{{RefName: "a", UpdateIndex: 1, Value: hashWith(20, 1, 1)}, {RefName: "b", UpdateIndex: 1, Value: hashWith(20, 2, 1)}}
	L := 56 + VerifIntRange(0, 39)
	msg := make([]byte, L+1)
	for i := range msg {
		msg[i] = 'x'
	}
	msg[L] = '\n'
	var logs []*LogRecord
	for i := 0; i < 3; i++ {
		l := &LogRecord{RefName: "a", UpdateIndex: uint64(3 - i), New: hashWith(20, byte(i), 2), Old: hashWith(20, byte(i), 3), Name: "n", Email: "e", Time: uint64(10 + i), Message: "m\n"}
		if i == 2 {
			l.Message = string(msg)
		}
		logs = append(logs, l)
	}
	// further log blocks behind the brim-full one: the larger fetch then reaches into data that follows
	for i := 0; i < 3; i++ {
		logs = append(logs, &LogRecord{RefName: "b", UpdateIndex: uint64(3 - i), New: hashWith(20, byte(i), 4), Old: hashWith(20, byte(i), 5), Name: "n", Email: "e", Time: uint64(20 + i), Message: "m\n"})
	}
	// hashes that deflate cannot shrink, so that the blocks are as long on disk as inflated
	x := uint32(12345)
	for _, l := range logs {
		for _, h := range [][]byte{l.New, l.Old} {
			for k := range h {
				x = x*1664525 + 1013904223
				h[k] = byte(x >> 24)
			}
		}
	}
	data, ok := writeTable(cfg, 1, 3, refs, logs)
	VerifAssert(ok, "writer-accepts")
	rd, err := NewReader(&ByteBlockSource{data}, "t")
	VerifAssert(err == nil, "newreader")
	if err != nil {
		return
	}
	key := symString(VerifIntRange(0, 1))
	oid := hashWith(20, 1, 1)
	VerifFreeze(rd)
	VerifShared(func(i int) string { return readWorkload(rd, key, oid) })
	VerifCover("done")
}

// brokenSource is a block source with one unreadable region (a bad sector); it has no state of its own.
type brokenSource struct {
	BlockSource
	bad uint64
}

func (f *brokenSource) ReadBlock(off uint64, size int) ([]byte, error) {
	if off <= f.bad && f.bad < off+uint64(size) {
		return nil, fmtError
	}
	return f.BlockSource.ReadBlock(off, size)
}

// Harness_C19_reader_fault: a read error met by one reader of a shared table stays that reader's business: failing reads write no shared state either, and the other reads return what they return alone.
// bounds: shapes 1 and 2 of the shaped tables behind a block source that cannot read one byte position (every 16th position of the block area, chosen symbolically; the header and footer stay readable); two runs of the read workload with a lookup key of 0..1 bytes
// assumes: the only I/O fault is the unreadable position (injected by the harness)
// covers: done
func Harness_C19_reader_fault() {
	sh := pickShape([]int{1, 2}[VerifChoose(2)])
	refs, logs := buildShape(sh)
	data, ok := writeTable(sh.cfg, 1, 4, refs, logs)
	VerifAssert(ok, "writer-accepts")
	body := len(data) - 68
	bad := uint64(24 + 16*VerifIntRange(0, (body-25)/16))
	rd, err := NewReader(&brokenSource{&ByteBlockSource{data}, bad}, "t")
	if err != nil {
		return
	}
	key := symString(VerifIntRange(0, 1))
	oid := make([]byte, rd.hashSize)
	oid[0] = 3
	VerifFreeze(rd)
	VerifShared(func(i int) string { return readWorkload(rd, key, oid) })
	VerifCover("done")
}
