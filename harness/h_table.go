//go:build verif

package reftable

import (
	"bytes"
	"io/ioutil"
	"math"
)

// ---------- reference model pieces (share no code with the implementation) ----------

func specIsSpace(c byte) bool {
	return c == ' ' || (c >= 9 && c <= 13)
}

func specTrim(s string) string {
	lo, hi := 0, len(s)
	for lo < hi && specIsSpace(s[lo]) {
		lo++
	}
	for hi > lo && specIsSpace(s[hi-1]) {
		hi--
	}
	return s[lo:hi]
}

func specLogIsDeletion(l *LogRecord) bool {
	return l.New == nil && l.Old == nil && l.Name == "" && l.Email == "" && l.Time == 0 && l.TZOffset == 0 && l.Message == ""
}

// specNormaliseLog is what the documentation says a written log entry reads
// back as: absent hashes read as all-zero, the message gets exactly one
// trailing newline unless exact messages were requested, and a deletion stays
// a deletion.
func specNormaliseLog(l LogRecord, exact bool, hashSize int) LogRecord {
	if specLogIsDeletion(&l) {
		return l
	}
	if l.New == nil {
		l.New = make([]byte, hashSize)
	}
	if l.Old == nil {
		l.Old = make([]byte, hashSize)
	}
	if !exact {
		// only trailing newlines are normalised (the C writer does the same);
		// blanks and tabs at either end belong to the message
		m := l.Message
		for len(m) > 0 && m[len(m)-1] == '\n' {
			m = m[:len(m)-1]
		}
		l.Message = m + "\n"
	}
	return l
}

func specLogLess(a, b *LogRecord) bool {
	if a.RefName != b.RefName {
		return a.RefName < b.RefName
	}
	return a.UpdateIndex > b.UpdateIndex
}

// ---------- generators ----------

type genCfg struct {
	hashSize int
	hashFree int  // number of leading hash bytes that are symbolic (rest: fixed filler)
	idxSmall bool // update index offsets < 128 (one varint length class)
	nameLen  int  // length of log Name/Email strings
	asciiMsg bool
}

func genHash(g *genCfg, fill byte) []byte {
	h := make([]byte, g.hashSize)
	for i := range h {
		if i < g.hashFree {
			h[i] = VerifU8()
		} else {
			h[i] = fill
		}
	}
	return h
}

// genRef returns an arbitrary ref record of one of the four kinds with the
// given name and an update index in [min,max].
func genRef(g *genCfg, name string, min, max uint64) *RefRecord {
	r := &RefRecord{RefName: name}
	if g.idxSmall {
		// structural bound (no solver query needed): offset in 0..127
		r.UpdateIndex = min + uint64(VerifU8()&0x7f)
		VerifAssume(r.UpdateIndex <= max)
	} else {
		r.UpdateIndex = VerifU64()
		VerifAssume(r.UpdateIndex >= min)
		VerifAssume(r.UpdateIndex <= max)
	}
	switch VerifChoose(4) {
	case 0: // deletion
	case 1:
		r.Value = genHash(g, 0x11)
	case 2:
		r.Value = genHash(g, 0x22)
		r.TargetValue = genHash(g, 0x33)
	case 3:
		r.Target = symString(VerifIntRange(1, 2))
	}
	return r
}

func genLog(g *genCfg, name string, kind int) *LogRecord {
	l := &LogRecord{RefName: name}
	if g.idxSmall {
		l.UpdateIndex = uint64(VerifU8() & 0x7f)
	} else {
		l.UpdateIndex = VerifU64()
	}
	switch kind {
	case 0: // deletion
	case 1: // full entry
		l.New = genHash(g, 0x44)
		l.Old = genHash(g, 0x55)
		l.Name = symString(g.nameLen)
		l.Email = symString(g.nameLen)
		if g.idxSmall {
			l.Time = uint64(VerifU8() & 0x7f)
		} else {
			l.Time = VerifU64()
		}
		l.TZOffset = int16(VerifU16())
		l.Message = symString(VerifIntRange(0, 2))
	case 2: // hashes absent
		if VerifChoose(2) == 1 {
			// an entry whose only non-zero field is the time zone offset: still an entry, not a deletion
			l.TZOffset = int16(VerifU16())
			VerifAssume(l.TZOffset != 0)
			break
		}
		if g.idxSmall {
			l.Time = uint64(VerifU8() & 0x7f)
		} else {
			l.Time = VerifU64()
		}
		VerifAssume(l.Time != 0)
		l.Message = symString(VerifIntRange(0, 2))
	}
	if g.asciiMsg {
		for i := 0; i < len(l.Message); i++ {
			VerifAssume(l.Message[i] < 0x80)
		}
	}
	return l
}

// ---------- checkers ----------

func refEq(got, want *RefRecord) bool {
	return got.RefName == want.RefName && got.UpdateIndex == want.UpdateIndex &&
		bytes.Equal(got.Value, want.Value) && bytes.Equal(got.TargetValue, want.TargetValue) &&
		(got.Value == nil) == (len(want.Value) == 0) && (got.TargetValue == nil) == (len(want.TargetValue) == 0) &&
		got.Target == want.Target
}

func logEq(got, want *LogRecord) bool {
	return got.RefName == want.RefName && got.UpdateIndex == want.UpdateIndex &&
		bytes.Equal(got.New, want.New) && bytes.Equal(got.Old, want.Old) &&
		(got.New == nil) == (want.New == nil) && (got.Old == nil) == (want.Old == nil) &&
		got.Name == want.Name && got.Email == want.Email && got.Time == want.Time &&
		got.TZOffset == want.TZOffset && got.Message == want.Message
}

// checkScanRefs asserts that a full ref scan of rd yields exactly want.
func checkScanRefs(rd *Reader, want []*RefRecord) {
	it, err := rd.SeekRef("")
	VerifAssert(err == nil, "seekref-start")
	if err != nil {
		return
	}
	for i := range want {
		var got RefRecord
		ok, err := it.NextRef(&got)
		VerifAssert(err == nil, "ref-next-err")
		VerifAssert(ok, "ref-dropped")
		if !ok || err != nil {
			return
		}
		VerifAssert(got.RefName == want[i].RefName, "ref-name")
		VerifAssert(got.UpdateIndex == want[i].UpdateIndex, "ref-update-index")
		VerifAssert(refEq(&got, want[i]), "ref-payload")
	}
	var got RefRecord
	ok, err := it.NextRef(&got)
	VerifAssert(err == nil, "ref-end-err")
	VerifAssert(!ok, "ref-extra")
}

func checkScanLogs(rd *Reader, want []LogRecord) {
	it, err := rd.SeekLog("", math.MaxUint64)
	VerifAssert(err == nil, "seeklog-start")
	if err != nil {
		return
	}
	for i := range want {
		var got LogRecord
		ok, err := it.NextLog(&got)
		VerifAssert(err == nil, "log-next-err")
		VerifAssert(ok, "log-dropped")
		if !ok || err != nil {
			return
		}
		VerifAssert(got.RefName == want[i].RefName, "log-name")
		VerifAssert(got.UpdateIndex == want[i].UpdateIndex, "log-update-index")
		VerifAssert(logEq(&got, &want[i]), "log-payload")
	}
	var got LogRecord
	ok, err := it.NextLog(&got)
	VerifAssert(err == nil, "log-end-err")
	VerifAssert(!ok, "log-extra")
}

func copyRef(r *RefRecord) *RefRecord { c := *r; return &c }

// writeTable drives the real writer; ok=false means the writer rejected the
// input (outside the property's domain).
func writeTable(cfg Config, min, max uint64, refs []*RefRecord, logs []*LogRecord) (data []byte, ok bool) {
	var buf bytes.Buffer
	w, err := NewWriter(&buf, &cfg)
	VerifAssert(err == nil, "newwriter")
	w.SetLimits(min, max)
	for _, r := range refs {
		if err := w.AddRef(copyRef(r)); err != nil {
			return nil, false
		}
	}
	for _, l := range logs {
		c := *l
		if err := w.AddLog(&c); err != nil {
			return nil, false
		}
	}
	if err := w.Close(); err != nil {
		return nil, false
	}
	return buf.Bytes(), true
}

// ---------- C01 table level ----------

// tableRoundTrip writes refs+logs with cfg and checks both scans.
func tableRoundTrip(cfg Config, min, max uint64, refs []*RefRecord, logs []*LogRecord) bool {
	hs := 20
	if cfg.HashID == SHA256ID {
		hs = 32
	}
	var want []LogRecord
	for _, l := range logs {
		want = append(want, specNormaliseLog(*l, cfg.ExactLogMessage, hs))
	}
	data, ok := writeTable(cfg, min, max, refs, logs)
	if !ok {
		return false
	}
	rd, err := NewReader(&ByteBlockSource{data}, "t")
	VerifAssert(err == nil, "newreader")
	if err != nil {
		return false
	}
	checkScanRefs(rd, refs)
	checkScanLogs(rd, want)
	return true
}

func ascendingNames(n int, lenLo, lenHi int) []string {
	var names []string
	last := ""
	for i := 0; i < n; i++ {
		s := symString(VerifIntRange(lenLo, lenHi))
		VerifAssume(s > last)
		names = append(names, s)
		last = s
	}
	return names
}

// Harness_C01_table_refs: box A, refs: every kind, symbolic names/values/indices/limits.
// bounds: 1..2 refs with names of 1..2 bytes (thorough: also 3 refs with 1-byte names), all byte values, 4 value kinds, hash bytes: first 2 free + fixed tail, update index min..min+127 with min<2^32 symbolic; Config: BlockSize in {64,96,4096(default)} x Unaligned x SkipIndexObjects x RestartInterval in {0(=16),1} x HashID in {sha1,sha256}
// assumes: update index offset < 128 (varint width decided at codec level)
// covers: done, rejected
func Harness_C01_table_refs() {
	cfg := Config{
		BlockSize:        []uint32{64, 96, 0}[VerifChoose(3)],
		Unaligned:        VerifChoose(2) == 1,
		SkipIndexObjects: VerifChoose(2) == 1,
		RestartInterval:  VerifChoose(2),
	}
	g := &genCfg{hashSize: 20, hashFree: 2, idxSmall: true}
	if VerifChoose(2) == 1 {
		cfg.HashID = SHA256ID
		g.hashSize = 32
	}
	min := uint64(VerifU32())
	n := VerifIntRange(1, 2+VerifTier())
	maxName := 2
	if n == 3 {
		maxName = 1 // the third record multiplies the paths by ~30: one-byte names keep the thorough tier within minutes
	}
	names := ascendingNames(n, 1, maxName)
	var refs []*RefRecord
	for i := 0; i < n; i++ {
		refs = append(refs, genRef(g, names[i], min, min+200))
	}
	if !tableRoundTrip(cfg, min, min+200, refs, nil) {
		VerifCover("rejected")
		return
	}
	VerifCover("done")
}

// Harness_C01_table_logs: box A, reflogs: deletion / full / hash-less entries after 0..1 refs.
// bounds: 0..1 refs + 1..2 logs (thorough: 3 logs in the quick configuration space, and 1..2 logs also with the default block size and sha256); names 1 byte (all values), log kinds {deletion, full entry, entry with absent hashes}; hashes: 1 free byte + fixed tail; name/email 1 byte, message 0..2 ASCII bytes; the optional ref is a plain value ref, time/update index 0..127, tz any 16 bit; Config: BlockSize 160 (thorough: also 4096 default) x Unaligned x ExactLogMessage x HashID sha1 (thorough: also sha256)
// assumes: message bytes < 0x80; update index and time < 128 (varint width decided at codec level)
// covers: done
func Harness_C01_table_logs() {
	n := VerifIntRange(1, 2+VerifTier())
	wide := 1 + VerifTier() // thorough: also the default block size and sha256 ...
	if n == 3 {
		wide = 1 // ... but three entries only in the narrow configuration space
	}
	cfg := Config{
		BlockSize:       []uint32{160, 0}[VerifChoose(wide)],
		Unaligned:       VerifChoose(2) == 1,
		ExactLogMessage: VerifChoose(2) == 1,
	}
	g := &genCfg{hashSize: 20, hashFree: 1, idxSmall: true, asciiMsg: true, nameLen: 1}
	if VerifChoose(wide) == 1 {
		cfg.HashID = SHA256ID
		g.hashSize = 32
	}
	var refs []*RefRecord
	if VerifChoose(2) == 1 {
		refs = append(refs, &RefRecord{RefName: symString(1), UpdateIndex: uint64(VerifU8() & 0x7f), Value: genHash(g, 0x11)})
	}
	var logs []*LogRecord
	for i := 0; i < n; i++ {
		l := genLog(g, symString(1), VerifChoose(3))
		if i > 0 {
			VerifAssume(specLogLess(logs[i-1], l))
		}
		logs = append(logs, l)
	}
	if !tableRoundTrip(cfg, 0, 200, refs, logs) {
		VerifCover("rejected")
		return
	}
	VerifCover("done")
}

// Harness_C01_table_boundary: sweeps the size of a ref block across the block size, byte by byte, with a log section (or further ref blocks) following directly.
// bounds: BlockSize 128 x Unaligned; 2..3 refs where the last one is a symbolic ref whose target length takes every value 0..120 (so the ref block takes every length up to and beyond the block size and the record moves to a new block), followed by 0..1 reflog entries; target bytes and one hash byte symbolic
// covers: done, rejected
func Harness_C01_table_boundary() {
	cfg := Config{BlockSize: 128, Unaligned: VerifChoose(2) == 1, RestartInterval: 1 + VerifChoose(2)}
	g := &genCfg{hashSize: 20, hashFree: 1, idxSmall: true, asciiMsg: true, nameLen: 1}
	var refs []*RefRecord
	refs = append(refs, &RefRecord{RefName: "a", UpdateIndex: 1, Value: genHash(g, 0x11)})
	if VerifChoose(2) == 1 {
		refs = append(refs, &RefRecord{RefName: "b", UpdateIndex: 2, Value: genHash(g, 0x22)})
	}
	l := VerifIntRange(0, 120)
	tgt := make([]byte, l)
	for i := range tgt {
		tgt[i] = 'x'
	}
	if l > 0 {
		tgt[l-1] = VerifU8()
	}
	refs = append(refs, &RefRecord{RefName: "c", UpdateIndex: 1, Target: string(tgt)})
	var logs []*LogRecord
	if VerifChoose(2) == 1 {
		logs = append(logs, &LogRecord{RefName: "a", UpdateIndex: 1, Time: 5, New: genHash(g, 0x44), Old: genHash(g, 0x55), Message: "m\n"})
	}
	if !tableRoundTrip(cfg, 1, 2, refs, logs) {
		VerifCover("rejected")
		return
	}
	VerifCover("done")
}

// Harness_C01_table_biglog: a log block larger than one 16 KiB deflate stored block, incompressible, filling the block size to within a few bytes.
// bounds: BlockSize 20000, one reflog entry whose message is L arbitrary bytes, L swept so that the inflated block size takes every value from 28 bytes below the block size up to the block size (and one step beyond: rejected); all message bytes symbolic and unconstrained (so the stored-block model applies and the native replay uses incompressible data)
// covers: done, rejected
func Harness_C01_table_biglog() {
	cfg := Config{BlockSize: 20000, ExactLogMessage: true, Unaligned: VerifChoose(2) == 1}
	l := &LogRecord{RefName: "a", UpdateIndex: 1, Time: 5, New: hashWith(20, 1, 1), Old: hashWith(20, 2, 2), Name: "n", Email: "e"}
	l.Message = symString(19876 + VerifIntRange(0, 32))
	if !tableRoundTrip(cfg, 1, 1, nil, []*LogRecord{l}) {
		VerifCover("rejected")
		return
	}
	VerifCover("done")
}

// Harness_C01_table_logwindow: a log block whose inflated payload ends exactly on a 32 KiB inflate-window boundary (where compress/flate reports EOF, and reads the stream trailer, one call later than for any other length).
// bounds: BlockSize 40000 x Unaligned, one ref + one reflog entry whose message is L bytes, L sweeping 64 values so that the deflated part of the log block takes every size from 32738 to 32801 bytes; one message byte symbolic, the rest concrete filler (real deflate on both sides)
// covers: done
func Harness_C01_table_logwindow() {
	cfg := Config{BlockSize: 40000, ExactLogMessage: true, Unaligned: VerifChoose(2) == 1}
	L := 32660 + VerifIntRange(0, 63)
	msg := make([]byte, L)
	for i := range msg {
		msg[i] = byte('a' + i%23)
	}
	refs := []*RefRecord{{RefName: "a", UpdateIndex: 1, Value: hashWith(20, 1, 1)}}
	l := &LogRecord{RefName: "a", UpdateIndex: 1, Time: 5, New: hashWith(20, 1, 1), Old: hashWith(20, 2, 2), Name: "n", Email: "e", Message: string(msg)}
	ok := tableRoundTrip(cfg, 1, 1, refs, []*LogRecord{l})
	VerifAssert(ok, "writer-accepts")
	VerifCover("done")
}

// Harness_C01_table_file: a table read from a file, with a ref iterator, a log iterator and a second ref iterator of the same reader advancing in lock-step, reads back what was written (block buffers of one reader's iterators are independent).
// bounds: shapes 2, 4 and 5 of the shaped tables (refs and logs, several blocks per section, indexes) written to a file on the (modelled) file system and opened with NewFileBlockSource; three iterators advanced alternately; one ref value byte symbolic
// covers: done
func Harness_C01_table_file() {
	sh := pickShape([]int{2, 4, 5}[VerifChoose(3)])
	refs, logs := buildShape(sh)
	if refs[len(refs)-1].Value != nil {
		refs[len(refs)-1].Value[2] = VerifU8()
	}
	data, ok := writeTable(sh.cfg, 1, 4, refs, logs)
	VerifAssert(ok, "writer-accepts")
	dir := VerifTempDir()
	path := dir + "/0x000000000001-0x000000000004-00000001.ref"
	var werr error
	VerifQuiet(func() { werr = ioutil.WriteFile(path, data, 0644) })
	VerifAssert(werr == nil, "write-file")
	src, err := NewFileBlockSource(path)
	VerifAssert(err == nil, "open-file")
	if err != nil {
		return
	}
	rd, err := NewReader(src, "t")
	VerifAssert(err == nil, "newreader")
	if err != nil {
		return
	}
	hs := hsOf(sh.cfg)
	itR, err := rd.SeekRef("")
	VerifAssert(err == nil, "seekref-start")
	itL, err2 := rd.SeekLog("", math.MaxUint64)
	VerifAssert(err2 == nil, "seeklog-start")
	mid := refs[len(refs)/2].RefName
	itM, err3 := rd.SeekRef(mid)
	VerifAssert(err3 == nil, "seekref-mid")
	if err != nil || err2 != nil || err3 != nil {
		return
	}
	n := len(refs)
	if len(logs) > n {
		n = len(logs)
	}
	for i := 0; i <= n; i++ {
		var r, r2 RefRecord
		okr, e := itR.NextRef(&r)
		VerifAssert(e == nil, "ref-next-err")
		VerifAssert(okr == (i < len(refs)), "ref-count")
		if okr && i < len(refs) {
			VerifAssert(refEq(&r, refs[i]), "ref-payload")
		}
		var l LogRecord
		okl, e := itL.NextLog(&l)
		VerifAssert(e == nil, "log-next-err")
		VerifAssert(okl == (i < len(logs)), "log-count")
		if okl && i < len(logs) {
			want := specNormaliseLog(*logs[i], sh.cfg.ExactLogMessage, hs)
			VerifAssert(logEq(&l, &want), "log-payload")
		}
		j := len(refs)/2 + i
		okm, e := itM.NextRef(&r2)
		VerifAssert(e == nil, "ref-next-err")
		VerifAssert(okm == (j < len(refs)), "ref-count")
		if okm && j < len(refs) {
			VerifAssert(refEq(&r2, refs[j]), "ref-payload")
		}
	}
	rd.Close()
	VerifCover("done")
}
