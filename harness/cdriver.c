/* Native replay driver for the C15 kernels: runs one C kernel of /repo/c on a
 * concrete input given as hex strings and prints the result.  Built by the
 * engine for every replay from the current /repo/c sources. */
#include "system.h"
#include "basics.h"
#include "record.h"
#include "strbuf.h"
#include "reftable-record.h"
#include <stdio.h>
#include <stdlib.h>
#include <string.h>

int64_t shim_scan(const uint8_t *tab, uint64_t len, int mode, const uint8_t *arg,
		  uint64_t idx, uint8_t *out, uint64_t cap);
int64_t shim_write(const uint8_t *desc, uint64_t dlen, uint32_t block_size,
		   int restart_interval, int flags, uint64_t min, uint64_t max,
		   uint8_t *out, uint64_t cap);

int64_t shim_stack_scan(const char *dir, int flags, int mode, const uint8_t *arg,
			uint64_t idx, uint8_t *out, uint64_t cap);
int64_t shim_stack_op(const char *dir, int flags, uint32_t block_size, int op,
		      const uint8_t *desc, uint64_t dlen);

static int unhex(const char *s, uint8_t **out)
{
	int n = strlen(s) / 2;
	uint8_t *b = calloc(n + 1, 1);
	for (int i = 0; i < n; i++) {
		unsigned v;
		sscanf(s + 2 * i, "%2x", &v);
		b[i] = (uint8_t)v;
	}
	*out = b;
	return n;
}

static void hex(const uint8_t *b, int n)
{
	printf("x");
	for (int i = 0; i < n; i++)
		printf("%02x", b[i]);
}

int main(int argc, char **argv)
{
	if (argc < 2)
		return 2;
	if (!strcmp(argv[1], "putvarint")) {
		uint64_t v = strtoull(argv[2], NULL, 10);
		int len = atoi(argv[3]);
		uint8_t *buf = calloc(len + 1, 1);
		struct string_view sv = { buf, len };
		int n = put_var_int(&sv, v);
		printf("%d ", n);
		hex(buf, len);
		printf("\n");
	} else if (!strcmp(argv[1], "getvarint")) {
		uint8_t *buf;
		int len = unhex(argv[2] + 1, &buf);
		struct string_view sv = { buf, len };
		uint64_t v = 0;
		int n = get_var_int(&v, &sv);
		printf("%d %llu\n", n, (unsigned long long)v);
	} else if (!strcmp(argv[1], "encodekey")) {
		int len = atoi(argv[2]);
		uint8_t *prev, *key;
		int pl = unhex(argv[3] + 1, &prev), kl = unhex(argv[4] + 1, &key);
		uint8_t *buf = calloc(len + 1, 1);
		struct string_view sv = { buf, len };
		struct strbuf p = STRBUF_INIT, k = STRBUF_INIT;
		strbuf_add(&p, prev, pl);
		strbuf_add(&k, key, kl);
		int restart = 0;
		int n = reftable_encode_key(&restart, sv, p, k, (uint8_t)atoi(argv[5]));
		printf("%d %d ", n, restart);
		hex(buf, len);
		printf("\n");
	} else if (!strcmp(argv[1], "decodekey")) {
		uint8_t *in, *prev;
		int il = unhex(argv[2] + 1, &in), pl = unhex(argv[3] + 1, &prev);
		struct string_view sv = { in, il };
		struct strbuf p = STRBUF_INIT, k = STRBUF_INIT;
		strbuf_add(&p, prev, pl);
		uint8_t extra = 0;
		int n = reftable_decode_key(&k, &extra, p, sv);
		printf("%d %d ", n, extra);
		hex((uint8_t *)k.buf, n < 0 ? 0 : (int)k.len);
		printf("\n");
	} else if (!strcmp(argv[1], "refencode")) {
		int len = atoi(argv[2]);
		struct reftable_ref_record r = { 0 };
		uint8_t *v1, *v2, *tg;
		r.refname = "n";
		r.update_index = strtoull(argv[3], NULL, 10);
		r.value_type = atoi(argv[4]);
		unhex(argv[5] + 1, &v1);
		unhex(argv[6] + 1, &v2);
		unhex(argv[7] + 1, &tg);
		switch (r.value_type) {
		case REFTABLE_REF_VAL1:
			r.value.val1 = v1;
			break;
		case REFTABLE_REF_VAL2:
			r.value.val2.value = v1;
			r.value.val2.target_value = v2;
			break;
		case REFTABLE_REF_SYMREF:
			r.value.symref = (char *)tg;
			break;
		}
		uint8_t *buf = calloc(len + 1, 1);
		struct string_view sv = { buf, len };
		struct reftable_record rec = { 0 };
		reftable_record_from_ref(&rec, &r);
		int n = reftable_record_encode(&rec, sv, atoi(argv[8]));
		printf("%d ", n);
		hex(buf, len);
		printf("\n");
	} else if (!strcmp(argv[1], "scan")) {
		uint8_t *tab, *arg;
		int len = unhex(argv[2] + 1, &tab);
		int mode = atoi(argv[3]);
		uint64_t idx, cap = strtoull(argv[6], NULL, 10);
		uint8_t *out = malloc(cap + 1);
		int64_t n;
		unhex(argv[4] + 1, &arg);
		idx = strtoull(argv[5], NULL, 10);
		n = shim_scan(tab, len, mode, arg, idx, out, cap);
		printf("%lld ", (long long)n);
		hex(out, n < 0 ? 0 : (n > (int64_t)cap ? (int)cap : (int)n));
		printf("\n");
	} else if (!strcmp(argv[1], "write")) {
		uint8_t *desc;
		int dlen = unhex(argv[2] + 1, &desc);
		uint64_t cap = strtoull(argv[8], NULL, 10);
		uint8_t *out = malloc(cap + 1);
		int64_t n = shim_write(desc, dlen, (uint32_t)strtoul(argv[3], NULL, 10), atoi(argv[4]), atoi(argv[5]),
				       strtoull(argv[6], NULL, 10), strtoull(argv[7], NULL, 10), out, cap);
		printf("%lld ", (long long)n);
		hex(out, n < 0 ? 0 : (n > (int64_t)cap ? (int)cap : (int)n));
		printf("\n");
	} else if (!strcmp(argv[1], "stackscan")) {
		uint8_t *arg;
		uint64_t cap = strtoull(argv[7], NULL, 10);
		uint8_t *out = malloc(cap + 1);
		int64_t n;
		unhex(argv[5] + 1, &arg);
		n = shim_stack_scan(argv[2], atoi(argv[3]), atoi(argv[4]), arg, strtoull(argv[6], NULL, 10), out, cap);
		printf("%lld ", (long long)n);
		hex(out, n < 0 ? 0 : (n > (int64_t)cap ? (int)cap : (int)n));
		printf("\n");
	} else if (!strcmp(argv[1], "stackop")) {
		uint8_t *desc;
		int dlen = unhex(argv[6] + 1, &desc);
		int64_t r = shim_stack_op(argv[2], atoi(argv[3]), (uint32_t)strtoul(argv[4], NULL, 10), atoi(argv[5]), desc, dlen);
		printf("%lld\n", (long long)r);
	} else {
		return 2;
	}
	return 0;
}
