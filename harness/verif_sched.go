//go:build verif

package reftable

// Native side of the process/schedule/crash model (DESIGN.md 3.4, 3.5).
//
// For native replay the engine substitutes copies of stack.go and reftable.go
// in which the package-level filesystem calls and *os.File are textually
// redirected to the verif* wrappers below (the substitution is regenerated
// from the current sources on every replay).  Each wrapper announces the step
// to the scheduler, which takes the same decisions as the engine did, from the
// replay vector: crash before a step, preempt at a visible step, which thread
// runs next.  Under the symbolic engine none of this code runs: the engine
// intercepts os.* directly and VerifSpawn/VerifRun are intrinsics.

import (
	"syscall"
	"bytes"
	"fmt"
	"io/ioutil"
	"os"
	"path/filepath"
	"runtime"
	"sort"
	"strings"
)

// verifThreadPanic carries a panic of a simulated process to the main goroutine.
type verifThreadPanic struct {
	val      interface{}
	pos      string
	logPanic bool
}

type verifThread struct {
	id        int
	body      func()
	resume    chan struct{}
	done      bool
	crashable bool
	err       interface{}
}

var verifSched struct {
	threads   []*verifThread
	cur       *verifThread
	yield     chan *verifThread
	active    bool
	preempts  int
	maxPre    int
	allSteps  bool
	onlyAt    string
	crashDone bool
	lastCrash bool
	mainProc  int
	trace     []string
	lockOwner map[string]int
	commits   []int
	dir       string
	quiet     bool
}

func verifSchedReset() {
	verifSched.threads = nil
	verifSched.cur = nil
	verifSched.active = false
	verifSched.preempts = 0
	verifSched.crashDone = false
	verifSched.lastCrash = false
	verifSched.mainProc = 0
	verifSched.trace = nil
	verifSched.lockOwner = map[string]int{}
	verifSched.commits = nil
	verifSched.dir = ""
	verifSched.quiet = false
}

func verifCurProc() int {
	if verifSched.active && verifSched.cur != nil {
		return verifSched.cur.id
	}
	return verifSched.mainProc
}


// verifFileClass maps a path to a stable class name for trace comparison.
func verifFileClass(p string) string {
	b := filepath.Base(p)
	switch {
	case b == "tables.list":
		return "list"
	case b == "tables.list.lock":
		return "list.lock"
	case strings.HasSuffix(b, ".ref.lock"):
		return "table.lock"
	case strings.HasSuffix(b, ".ref"):
		return "table"
	case strings.HasSuffix(b, ".reftmp"):
		return "tmp"
	}
	return "other"
}

// verifStep announces a filesystem step; see Machine.step in the engine.
func verifStep(visible bool, op string, paths ...string) {
	s := &verifSched
	if s.quiet {
		return
	}
	what := op
	for _, p := range paths {
		what += " " + verifFileClass(p)
	}
	if !s.active {
		s.trace = append(s.trace, fmt.Sprintf("P%d %s", s.mainProc, what))
		return
	}
	me := s.cur
	if me.crashable && !s.crashDone {
		if VerifChooseSched(2) == 1 {
			s.crashDone = true
			me.done = true
			s.trace = append(s.trace, fmt.Sprintf("P%d CRASH before %s", me.id, what))
			s.yield <- me
			select {} // the process is gone: no deferred cleanup runs
		}
	}
	if (visible || s.allSteps) && (s.onlyAt == "" || strings.Contains(what, s.onlyAt)) {
		s.yield <- me
		<-me.resume
	}
	s.trace = append(s.trace, fmt.Sprintf("P%d %s", me.id, what))
}

// VerifChooseSched reads a scheduler/crash decision from the replay vector.
func VerifChooseSched(n int) int {
	if n <= 1 {
		return 0
	}
	v := int(verifNext())
	if v < 0 || v >= n {
		panic(verifDiverged{fmt.Sprintf("schedule decision %d outside [0,%d)", v, n)})
	}
	return v
}

func VerifSpawn(f func()) {
	verifSched.threads = append(verifSched.threads, &verifThread{id: len(verifSched.threads) + 1, body: f})
}

func VerifSpawnCrashable(f func()) {
	verifSched.threads = append(verifSched.threads, &verifThread{id: len(verifSched.threads) + 1, body: f, crashable: true})
}

func VerifRun(maxPreempt int)         { verifRunThreads(maxPreempt, false) }
func VerifRunAllSteps(maxPreempt int) { verifRunThreads(maxPreempt, true) }

// VerifRunAt explores deep but narrow: up to maxPreempt preemptions, offered only
// at the steps whose description contains class (e.g. "readfile list").
func VerifRunAt(maxPreempt int, class string) {
	verifSched.onlyAt = class
	verifRunThreads(maxPreempt, false)
	verifSched.onlyAt = ""
}
func VerifCrashed() bool              { return verifSched.lastCrash }
func VerifAs(proc int)                { verifSched.mainProc = proc }

func verifRunThreads(maxPre int, allSteps bool) {
	s := &verifSched
	if len(s.threads) == 0 {
		return
	}
	s.active, s.maxPre, s.allSteps = true, maxPre, allSteps
	s.yield = make(chan *verifThread)
	for _, t := range s.threads {
		t := t
		t.resume = make(chan struct{})
		go func() {
			defer func() {
				if r := recover(); r != nil {
					switch r.(type) {
					case verifAssertFailed, verifExhausted, verifDiverged, verifAssumeFailed:
						t.err = r
					default:
						pos, lp := verifPanicSite()
						t.err = verifThreadPanic{r, pos, lp}
					}
				}
				t.done = true
				s.yield <- t
			}()
			<-t.resume
			t.body()
		}()
	}
	for {
		var alive []*verifThread
		for _, t := range s.threads {
			if !t.done {
				alive = append(alive, t)
			}
		}
		if len(alive) == 0 {
			break
		}
		var order []*verifThread
		curAlive := s.cur != nil && !s.cur.done
		if curAlive {
			order = append(order, s.cur)
		}
		for _, t := range alive {
			if t != s.cur {
				order = append(order, t)
			}
		}
		n := len(order)
		if curAlive && s.preempts >= s.maxPre {
			n = 1
		}
		k := VerifChooseSched(n)
		if curAlive && k > 0 {
			s.preempts++
			s.trace = append(s.trace, fmt.Sprintf("-- preempt P%d -> P%d", s.cur.id, order[k].id))
		}
		s.cur = order[k]
		s.cur.resume <- struct{}{}
		t := <-s.yield
		if t.done && t.err != nil {
			s.active = false
			panic(t.err)
		}
	}
	s.lastCrash = s.crashDone
	s.active = false
	s.cur = nil
	s.threads = nil
	s.preempts = 0
	s.crashDone = false
}

// ---------- monitors (native twins of the engine's) ----------

func VerifMonitor(name string) { verifNative.monitors[name] = true }

func verifMonitorHit(label, msg string) {
	for _, h := range verifNative.monitorHits {
		if strings.HasPrefix(h, label) {
			return
		}
	}
	verifNative.monitorHits = append(verifNative.monitorHits, label+": "+msg)
}

func verifListNames(dir string) []string {
	b, err := ioutil.ReadFile(filepath.Join(dir, "tables.list"))
	if err != nil {
		return nil
	}
	var out []string
	for _, l := range bytes.Split(b, []byte("\n")) {
		if len(l) > 0 {
			out = append(out, string(l))
		}
	}
	return out
}

func verifMonitorList(after string) {
	if !verifNative.monitors["list"] || verifSched.dir == "" {
		return
	}
	dir := verifSched.dir
	var lastMax uint64
	for i, n := range verifListNames(dir) {
		b, err := ioutil.ReadFile(filepath.Join(dir, n))
		if err != nil {
			verifMonitorHit("list-names-missing-table", "tables.list names "+n+" which does not exist, after "+after)
			return
		}
		if len(b) < 24+68 {
			verifMonitorHit("list-names-incomplete-table", n)
			return
		}
		hs, fs := 24, 68
		if b[4] == 2 {
			hs, fs = 28, 72
		}
		if string(b[:4]) != "REFT" || len(b) < hs+fs || !bytes.Equal(b[len(b)-fs:len(b)-fs+hs], b[:hs]) {
			verifMonitorHit("list-names-incomplete-table", n)
			return
		}
		be := func(x []byte) uint64 {
			var v uint64
			for _, c := range x[:8] {
				v = v<<8 | uint64(c)
			}
			return v
		}
		mn, mx := be(b[8:]), be(b[16:])
		if i > 0 && mn <= lastMax {
			verifMonitorHit("list-order", n)
			return
		}
		if mx < mn {
			verifMonitorHit("list-range-inverted", n)
			return
		}
		lastMax = mx
	}
}

func verifLockCheck(path, op string) {
	if !verifNative.monitors["locks"] || !strings.HasSuffix(path, ".lock") {
		return
	}
	if owner, ok := verifSched.lockOwner[path]; ok && owner != verifCurProc() {
		if _, err := os.Stat(path); err == nil {
			lk := "table.lock"
			if filepath.Base(path) == "tables.list.lock" {
				lk = "tables.list.lock"
			}
			verifMonitorHit("lock-not-owner-"+op+"-"+lk, fmt.Sprintf("P%d %ss a lock created by P%d", verifCurProc(), op, owner))
		}
	}
}

// VerifCommits returns the processes that renamed a file onto tables.list, in order.
func VerifCommits() []int { return append([]int{}, verifSched.commits...) }

// VerifDirNames lists the stack directory.
func VerifDirNames() []string {
	ents, _ := ioutil.ReadDir(verifSched.dir)
	var out []string
	for _, e := range ents {
		out = append(out, e.Name())
	}
	sort.Strings(out)
	return out
}

// ---------- wrappers substituted into stack.go / reftable.go for replay ----------

type verifFile struct{ *os.File }

func verifWrap(f *os.File, err error) (*verifFile, error) {
	if f == nil {
		return nil, err
	}
	return &verifFile{f}, err
}

func verifOpenFile(name string, flag int, perm os.FileMode) (*verifFile, error) {
	verifStep(true, fmt.Sprintf("openfile(%#x)", flag), name)
	if verifNative.monitors["locks"] && strings.HasSuffix(name, ".lock") && flag&os.O_CREATE != 0 && flag&os.O_EXCL == 0 {
		if _, err := os.Stat(name); err == nil {
			verifMonitorHit("lock-overwritten", filepath.Base(name))
		}
	}
	f, err := os.OpenFile(name, flag, perm)
	if err == nil && flag&os.O_CREATE != 0 {
		verifSched.lockOwner[name] = verifCurProc()
	}
	verifMonitorList("openfile")
	return verifWrap(f, err)
}

func verifOpen(name string) (*verifFile, error) {
	verifStep(true, "open", name)
	if verifNative.faultOpen > 0 {
		verifNative.faultOpen--
		if verifNative.faultOpen == 0 {
			return nil, &os.PathError{Op: "open", Path: name, Err: syscall.EMFILE}
		}
	}
	return verifWrap(os.Open(name))
}

func verifRename(from, to string) error {
	verifStep(true, "rename", from, to)
	verifLockCheck(from, "rename")
	var oldNames []string
	isCommit := filepath.Base(to) == "tables.list"
	if isCommit && verifNative.monitors["locks"] {
		oldNames = verifListNames(filepath.Dir(to))
	}
	err := os.Rename(from, to)
	if err == nil && isCommit && verifNative.monitors["locks"] {
		// a commit that drops tables from the list (a compaction) must hold their locks
		kept := map[string]bool{}
		for _, n := range verifListNames(filepath.Dir(to)) {
			kept[n] = true
		}
		for _, n := range oldNames {
			if kept[n] {
				continue
			}
			lk := filepath.Join(filepath.Dir(to), n+".lock")
			owner, ok := verifSched.lockOwner[lk]
			if _, serr := os.Stat(lk); serr != nil || !ok || owner != verifCurProc() {
				verifMonitorHit("commit-drops-table-without-its-lock", n)
			}
		}
	}
	if err == nil {
		if o, ok := verifSched.lockOwner[from]; ok {
			delete(verifSched.lockOwner, from)
			_ = o
		}
		if filepath.Base(to) == "tables.list" {
			verifSched.commits = append(verifSched.commits, verifCurProc())
		}
	}
	verifMonitorList("rename")
	return err
}

func verifRemove(name string) error {
	verifStep(!strings.HasSuffix(name, ".reftmp"), "remove", name)
	verifLockCheck(name, "remove")
	err := os.Remove(name)
	if err == nil {
		delete(verifSched.lockOwner, name)
	}
	verifMonitorList("remove")
	return err
}

func verifReadFile(name string) ([]byte, error) {
	verifStep(true, "readfile", name)
	if verifNative.faultRead > 0 {
		verifNative.faultRead--
		if verifNative.faultRead == 0 {
			return nil, &os.PathError{Op: "read", Path: name, Err: syscall.EIO}
		}
	}
	return ioutil.ReadFile(name)
}

func verifTempFile(dir, pattern string) (*verifFile, error) {
	verifStep(false, "tempfile")
	return verifWrap(ioutil.TempFile(dir, pattern))
}

// verifWriteFile is os.WriteFile as the standard library implements it: open
// with O_TRUNC, write, close - three steps, not atomic.
func verifWriteFile(name string, data []byte, perm os.FileMode) error {
	f, err := verifOpenFile(name, os.O_WRONLY|os.O_CREATE|os.O_TRUNC, perm)
	if err != nil {
		return err
	}
	_, err = f.Write(data)
	if err1 := f.Close(); err1 != nil && err == nil {
		err = err1
	}
	return err
}

func verifCreate(name string) (*verifFile, error) {
	return verifOpenFile(name, os.O_RDWR|os.O_CREATE|os.O_TRUNC, 0666)
}

func verifReadDir(dir string) ([]os.FileInfo, error) {
	verifStep(true, "readdir")
	return ioutil.ReadDir(dir)
}

func (f *verifFile) Write(b []byte) (int, error) {
	if f == nil {
		return 0, os.ErrInvalid
	}
	verifStep(false, "write", f.File.Name())
	return f.File.Write(b)
}

func (f *verifFile) Close() error {
	if f == nil {
		return os.ErrInvalid
	}
	verifStep(false, "close", f.File.Name())
	return f.File.Close()
}

func (f *verifFile) Stat() (os.FileInfo, error) {
	verifStep(false, "stat", f.File.Name())
	return f.File.Stat()
}

func (f *verifFile) ReadAt(b []byte, off int64) (int, error) {
	verifStep(false, "readat", f.File.Name())
	return f.File.ReadAt(b, off)
}

func (f *verifFile) Seek(off int64, whence int) (int64, error) {
	verifStep(false, "seek", f.File.Name())
	return f.File.Seek(off, whence)
}

func (f *verifFile) Read(b []byte) (int, error) {
	verifStep(false, "read", f.File.Name())
	return f.File.Read(b)
}

func (f *verifFile) Sync() error {
	if f == nil {
		return os.ErrInvalid
	}
	verifStep(false, "sync", f.File.Name())
	return f.File.Sync()
}

func (f *verifFile) Name() string { return f.File.Name() }

// ---------- panic classification (shared with the replay driver) ----------

func verifPanicClass(r interface{}, logPanic bool) string {
	msg := fmt.Sprint(r)
	if _, ok := r.(runtime.Error); ok {
		switch {
		case strings.Contains(msg, "index out of range"):
			return "index"
		case strings.Contains(msg, "slice bounds out of range"):
			return "slice"
		case strings.Contains(msg, "nil pointer dereference"), strings.Contains(msg, "nil map"):
			return "nil"
		case strings.Contains(msg, "divide by zero"):
			return "divide"
		case strings.Contains(msg, "makeslice"), strings.Contains(msg, "out of memory"):
			return "alloc"
		case strings.Contains(msg, "interface conversion"):
			return "typeassert"
		case strings.Contains(msg, "negative shift"):
			return "shift"
		}
		return "runtime"
	}
	if logPanic {
		return "logpanic"
	}
	return "explicit"
}

// verifPanicSite finds the innermost frame in the package under test (not in a
// harness file) below the panic.
func verifPanicSite() (pos string, logPanic bool) {
	pcs := make([]uintptr, 64)
	n := runtime.Callers(3, pcs)
	frames := runtime.CallersFrames(pcs[:n])
	for {
		f, more := frames.Next()
		if strings.HasPrefix(f.Function, "log.Panic") || strings.HasPrefix(f.Function, "log.Fatal") {
			logPanic = true
		}
		if strings.Contains(f.Function, "github.com/google/reftable") {
			file := f.File
			if i := strings.LastIndex(file, "/"); i >= 0 {
				file = file[i+1:]
			}
			if !strings.HasPrefix(file, "zz_verif_") {
				return fmt.Sprintf("%s:%d", file, f.Line), logPanic
			}
			if pos == "" {
				pos = fmt.Sprintf("%s:%d", file, f.Line)
			}
		}
		if !more {
			break
		}
	}
	return pos, logPanic
}

