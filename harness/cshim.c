/* C15 harness code on the C side (the counterpart of harness/h_c15.go): drives
 * the public C reader / writer API of /repo/c over in-memory tables and
 * exchanges records with the Go side in a canonical binary form, so that no
 * text formatting stands between the two implementations.  It is compiled from
 * this file together with /repo/c on every run: to LLVM IR for the engine, and
 * natively into the replay driver.
 *
 * Canonical record stream (all integers big endian):
 *   'R' u16 len name  u64 update_index  u8 type  [hash] [hash] | u16 len target
 *   'L' u16 len name  u64 update_index  u8 type
 *       [hash new] [hash old] u16 len name u16 len email u64 time u16 tz u16 len message
 *   'E' u32 error code (two's complement), ends the stream
 */
#include "system.h"
#include "basics.h"
#include "blocksource.h"
#include "strbuf.h"
#include "reftable-reader.h"
#include "reftable-writer.h"
#include "reftable-error.h"
#include "reftable-record.h"
#include "reftable-merged.h"
#include "reftable-stack.h"
#include "stack.h"

struct shim_out {
	uint8_t *p;
	uint64_t n, cap;
};

static void out_bytes(struct shim_out *o, const void *d, uint64_t n)
{
	if (o->n + n <= o->cap && n > 0)
		memcpy(o->p + o->n, d, n);
	o->n += n;
}

static void out_u8(struct shim_out *o, uint8_t v)
{
	out_bytes(o, &v, 1);
}

static void out_u16(struct shim_out *o, uint16_t v)
{
	uint8_t b[2];
	put_be16(b, v);
	out_bytes(o, b, 2);
}

static void out_u32(struct shim_out *o, uint32_t v)
{
	uint8_t b[4];
	put_be32(b, v);
	out_bytes(o, b, 4);
}

static void out_u64(struct shim_out *o, uint64_t v)
{
	uint8_t b[8];
	put_be64(b, v);
	out_bytes(o, b, 8);
}

static void out_str(struct shim_out *o, const char *s)
{
	uint64_t n = s ? strlen(s) : 0;
	out_u16(o, (uint16_t)n);
	out_bytes(o, s, n);
}

static void out_hash(struct shim_out *o, const uint8_t *h, int hash_size)
{
	static const uint8_t zero[32] = { 0 };
	out_bytes(o, h ? h : zero, hash_size);
}

static void out_ref(struct shim_out *o, struct reftable_ref_record *ref, int hash_size)
{
	out_u8(o, 'R');
	out_str(o, ref->refname);
	out_u64(o, ref->update_index);
	out_u8(o, (uint8_t)ref->value_type);
	switch (ref->value_type) {
	case REFTABLE_REF_VAL1:
		out_hash(o, ref->value.val1, hash_size);
		break;
	case REFTABLE_REF_VAL2:
		out_hash(o, ref->value.val2.value, hash_size);
		out_hash(o, ref->value.val2.target_value, hash_size);
		break;
	case REFTABLE_REF_SYMREF:
		out_str(o, ref->value.symref);
		break;
	default:
		break;
	}
}

static void out_log(struct shim_out *o, struct reftable_log_record *log, int hash_size)
{
	out_u8(o, 'L');
	out_str(o, log->refname);
	out_u64(o, log->update_index);
	out_u8(o, (uint8_t)log->value_type);
	if (log->value_type == REFTABLE_LOG_UPDATE) {
		out_hash(o, log->value.update.new_hash, hash_size);
		out_hash(o, log->value.update.old_hash, hash_size);
		out_str(o, log->value.update.name);
		out_str(o, log->value.update.email);
		out_u64(o, log->value.update.time);
		out_u16(o, (uint16_t)log->value.update.tz_offset);
		out_str(o, log->value.update.message);
	}
}

/* shim_scan: open the table held in tab[0..len) with the C reader and dump
 *   mode 0: the refs from reftable_reader_seek_ref(arg)
 *   mode 1: the logs from reftable_reader_seek_log_at(arg, idx)
 *   mode 2: the refs from reftable_reader_refs_for(arg as object id)
 * into out.  Returns the number of bytes of the dump (which may exceed cap:
 * then the dump is truncated). */
int64_t shim_scan(const uint8_t *tab, uint64_t len, int mode, const uint8_t *arg,
		  uint64_t idx, uint8_t *out, uint64_t cap)
{
	struct strbuf buf = STRBUF_INIT;
	struct reftable_block_source src = { 0 };
	struct reftable_reader *rd = NULL;
	struct reftable_iterator it = { 0 };
	struct shim_out o = { out, 0, cap };
	int hash_size = 20;
	int err;

	strbuf_add(&buf, tab, len);
	block_source_from_strbuf(&src, &buf);
	err = reftable_new_reader(&rd, &src, "shim");
	if (err < 0)
		goto done;
	if (reftable_reader_hash_id(rd) == 0x73323536) /* "s256" */
		hash_size = 32;
	out_u8(&o, 'H');
	out_u64(&o, reftable_reader_min_update_index(rd));
	out_u64(&o, reftable_reader_max_update_index(rd));
	switch (mode) {
	case 0:
		err = reftable_reader_seek_ref(rd, &it, (const char *)arg);
		break;
	case 1:
		err = reftable_reader_seek_log_at(rd, &it, (const char *)arg, idx);
		break;
	default:
		err = reftable_reader_refs_for(rd, &it, (uint8_t *)arg);
		break;
	}
	if (err < 0)
		goto done;
	while (1) {
		if (mode == 1) {
			struct reftable_log_record log = { 0 };
			err = reftable_iterator_next_log(&it, &log);
			if (err == 0)
				out_log(&o, &log, hash_size);
			reftable_log_record_release(&log);
		} else {
			struct reftable_ref_record ref = { 0 };
			err = reftable_iterator_next_ref(&it, &ref);
			if (err == 0)
				out_ref(&o, &ref, hash_size);
			reftable_ref_record_release(&ref);
		}
		if (err != 0)
			break;
	}
	if (err > 0)
		err = 0;
done:
	out_u8(&o, 'E');
	out_u32(&o, (uint32_t)err);
	reftable_iterator_destroy(&it);
	if (rd)
		reftable_reader_free(rd);
	else
		strbuf_release(&buf);
	return (int64_t)o.n;
}

struct shim_in {
	const uint8_t *p;
	uint64_t n, pos;
	int bad;
};

static const uint8_t *in_bytes(struct shim_in *in, uint64_t n)
{
	const uint8_t *r = in->p + in->pos;
	if (in->pos + n > in->n) {
		in->bad = 1;
		return NULL;
	}
	in->pos += n;
	return r;
}

static uint64_t in_uint(struct shim_in *in, int n)
{
	const uint8_t *b = in_bytes(in, n);
	uint64_t v = 0;
	int i;
	if (!b)
		return 0;
	for (i = 0; i < n; i++)
		v = (v << 8) | b[i];
	return v;
}

static char *in_str(struct shim_in *in)
{
	uint64_t n = in_uint(in, 2);
	const uint8_t *b = in_bytes(in, n);
	char *s;
	if (!b)
		return NULL;
	s = reftable_malloc(n + 1);
	memcpy(s, b, n);
	s[n] = 0;
	return s;
}

static uint8_t *in_hash(struct shim_in *in, int hash_size)
{
	const uint8_t *b = in_bytes(in, hash_size);
	uint8_t *h;
	if (!b)
		return NULL;
	h = reftable_malloc(hash_size);
	memcpy(h, b, hash_size);
	return h;
}

static ssize_t shim_write_cb(void *arg, const void *data, size_t sz)
{
	return strbuf_add((struct strbuf *)arg, data, sz);
}

/* add_records: feed a canonical record stream to a writer. With fix_index
 * every record gets that update index instead of the one in the stream. */
static int add_records(struct reftable_writer *w, struct shim_in *in,
		       int hash_size, int fix, uint64_t fix_index)
{
	int err = 0;
	while (in->pos < in->n && !in->bad && err == 0) {
		uint8_t typ = (uint8_t)in_uint(in, 1);
		if (typ == 'R') {
			struct reftable_ref_record ref = { 0 };
			ref.refname = in_str(in);
			ref.update_index = in_uint(in, 8);
			if (fix)
				ref.update_index = fix_index;
			ref.value_type = (int)in_uint(in, 1);
			switch (ref.value_type) {
			case REFTABLE_REF_VAL1:
				ref.value.val1 = in_hash(in, hash_size);
				break;
			case REFTABLE_REF_VAL2:
				ref.value.val2.value = in_hash(in, hash_size);
				ref.value.val2.target_value = in_hash(in, hash_size);
				break;
			case REFTABLE_REF_SYMREF:
				ref.value.symref = in_str(in);
				break;
			default:
				break;
			}
			if (!in->bad)
				err = reftable_writer_add_ref(w, &ref);
			reftable_ref_record_release(&ref);
		} else if (typ == 'L') {
			struct reftable_log_record log = { 0 };
			log.refname = in_str(in);
			log.update_index = in_uint(in, 8);
			if (fix)
				log.update_index = fix_index;
			log.value_type = (int)in_uint(in, 1);
			if (log.value_type == REFTABLE_LOG_UPDATE) {
				log.value.update.new_hash = in_hash(in, hash_size);
				log.value.update.old_hash = in_hash(in, hash_size);
				log.value.update.name = in_str(in);
				log.value.update.email = in_str(in);
				log.value.update.time = in_uint(in, 8);
				log.value.update.tz_offset = (int16_t)in_uint(in, 2);
				log.value.update.message = in_str(in);
			}
			if (!in->bad)
				err = reftable_writer_add_log(w, &log);
			reftable_log_record_release(&log);
		} else {
			in->bad = 1;
		}
	}
	if (in->bad)
		err = REFTABLE_API_ERROR;
	return err;
}

/* shim_write: write a table with the C writer from a canonical record stream
 * (refs first, then logs, each in key order) and copy the table to out.
 * flags: 1 unpadded, 2 skip_index_objects, 4 exact_log_message, 8 sha256.
 * Returns the table size, or a negative reftable error. */
int64_t shim_write(const uint8_t *desc, uint64_t dlen, uint32_t block_size,
		   int restart_interval, int flags, uint64_t min, uint64_t max,
		   uint8_t *out, uint64_t cap)
{
	struct strbuf buf = STRBUF_INIT;
	struct reftable_write_options opts = { 0 };
	struct reftable_writer *w;
	struct shim_in in = { desc, dlen, 0, 0 };
	int hash_size = (flags & 8) ? 32 : 20;
	int err = 0;
	int64_t res;

	opts.unpadded = (flags & 1) != 0;
	opts.skip_index_objects = (flags & 2) != 0;
	opts.exact_log_message = (flags & 4) != 0;
	opts.block_size = block_size;
	opts.restart_interval = restart_interval;
	if (flags & 8)
		opts.hash_id = 0x73323536;
	w = reftable_new_writer(&shim_write_cb, &buf, &opts);
	reftable_writer_set_limits(w, min, max);
	err = add_records(w, &in, hash_size, 0, 0);
	if (err == 0)
		err = reftable_writer_close(w);
	reftable_writer_free(w);
	if (err < 0) {
		res = err;
	} else {
		res = (int64_t)buf.len;
		if (buf.len <= cap && buf.len > 0)
			memcpy(out, buf.buf, buf.len);
	}
	strbuf_release(&buf);
	return res;
}

static void shim_stack_options(struct reftable_write_options *opts, int flags,
			       uint32_t block_size)
{
	opts->unpadded = (flags & 1) != 0;
	opts->skip_index_objects = (flags & 2) != 0;
	opts->exact_log_message = (flags & 4) != 0;
	opts->block_size = block_size;
	if (flags & 8)
		opts->hash_id = 0x73323536;
}

/* shim_stack_scan: open the stack directory with the C stack and dump its
 * merged view: mode 0 the refs from seek_ref(arg), mode 1 the logs from
 * seek_log_at(arg, idx). */
int64_t shim_stack_scan(const char *dir, int flags, int mode, const uint8_t *arg,
			uint64_t idx, uint8_t *out, uint64_t cap)
{
	struct reftable_write_options opts = { 0 };
	struct reftable_stack *st = NULL;
	struct reftable_merged_table *mt;
	struct reftable_iterator it = { 0 };
	struct shim_out o = { out, 0, cap };
	int hash_size = (flags & 8) ? 32 : 20;
	int err;

	shim_stack_options(&opts, flags, 0);
	err = reftable_new_stack(&st, dir, opts);
	if (err < 0)
		goto done;
	mt = reftable_stack_merged_table(st);
	out_u8(&o, 'H');
	out_u64(&o, reftable_merged_table_min_update_index(mt));
	out_u64(&o, reftable_merged_table_max_update_index(mt));
	if (mode == 1)
		err = reftable_merged_table_seek_log_at(mt, &it, (const char *)arg, idx);
	else
		err = reftable_merged_table_seek_ref(mt, &it, (const char *)arg);
	if (err < 0)
		goto done;
	while (1) {
		if (mode == 1) {
			struct reftable_log_record log = { 0 };
			err = reftable_iterator_next_log(&it, &log);
			if (err == 0)
				out_log(&o, &log, hash_size);
			reftable_log_record_release(&log);
		} else {
			struct reftable_ref_record ref = { 0 };
			err = reftable_iterator_next_ref(&it, &ref);
			if (err == 0)
				out_ref(&o, &ref, hash_size);
			reftable_ref_record_release(&ref);
		}
		if (err != 0)
			break;
	}
	if (err > 0)
		err = 0;
done:
	out_u8(&o, 'E');
	out_u32(&o, (uint32_t)err);
	reftable_iterator_destroy(&it);
	if (st)
		reftable_stack_destroy(st);
	return (int64_t)o.n;
}

struct shim_add_arg {
	struct shim_in in;
	int hash_size;
	uint64_t index;
};

static int shim_add_cb(struct reftable_writer *wr, void *varg)
{
	struct shim_add_arg *a = varg;
	reftable_writer_set_limits(wr, a->index, a->index);
	a->in.pos = 0;
	return add_records(wr, &a->in, a->hash_size, 1, a->index);
}

/* shim_stack_op: open the stack directory with the C stack, run one operation
 * and close it again.
 *   op 0: add one table holding the records of desc, all at the stack's next
 *         update index (no automatic compaction)
 *   op 1: the same, followed by the automatic compaction of reftable_stack_add
 *   op 2: reftable_stack_compact_all
 *   op 3: reftable_stack_auto_compact
 *   op 4: reftable_stack_clean
 * Returns the operation's result. */
int64_t shim_stack_op(const char *dir, int flags, uint32_t block_size, int op,
		      const uint8_t *desc, uint64_t dlen)
{
	struct reftable_write_options opts = { 0 };
	struct reftable_stack *st = NULL;
	int err;

	shim_stack_options(&opts, flags, block_size);
	err = reftable_new_stack(&st, dir, opts);
	if (err < 0)
		return err;
	switch (op) {
	case 0:
	case 1: {
		struct shim_add_arg a = { { desc, dlen, 0, 0 },
					  (flags & 8) ? 32 : 20, 0 };
		st->disable_auto_compact = (op == 0);
		a.index = reftable_stack_next_update_index(st);
		err = reftable_stack_add(st, &shim_add_cb, &a);
		break;
	}
	case 2:
		err = reftable_stack_compact_all(st, NULL);
		break;
	case 3:
		err = reftable_stack_auto_compact(st);
		break;
	default:
		err = reftable_stack_clean(st);
		break;
	}
	reftable_stack_destroy(st);
	return err;
}
