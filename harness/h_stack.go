//go:build verif

package reftable

import (
	"math"
	"sort"
	"strings"
)

// Stack scenarios on the (modelled or, for replay, real) filesystem.
//
// Every process is a handle of its own (NewStack) running one operation in a
// simulated thread; the engine explores every schedule within the context
// bound.  Transactions write a private ref "p<k>" and the shared ref "s", so
// lost, duplicated, altered and phantom updates are all visible in the final
// view.

func stackCfg(hash int) Config {
	cfg := Config{BlockSize: 256, HashID: SHA1ID}
	if hash == 1 {
		cfg.HashID = SHA256ID
	}
	return cfg
}

func hsOf(cfg Config) int {
	if cfg.HashID == SHA256ID {
		return 32
	}
	return 20
}

func mustOpen(dir string, cfg Config, label string) *Stack {
	st, err := NewStack(dir, cfg)
	VerifAssert(err == nil, label)
	if err != nil {
		return nil
	}
	st.disableAutoCompact = true
	return st
}

// addTxn commits one transaction: private ref, shared ref and a reflog entry.
func addTxn(st *Stack, k byte, withLog bool) error { return addTxnVal(st, k, 0, withLog) }

// addTxnVal: as addTxn; payload is an extra (possibly symbolic) byte of the private ref's value.
func addTxnVal(st *Stack, k byte, payload byte, withLog bool) error {
	hs := hsOf(st.cfg)
	return st.Add(func(w *Writer) error {
		ui := st.NextUpdateIndex()
		w.SetLimits(ui, ui)
		pv := hashWith(hs, k, 1)
		pv[3] = payload
		if err := w.AddRef(&RefRecord{RefName: "p" + string([]byte{'0' + k}), UpdateIndex: ui, Value: pv}); err != nil {
			return err
		}
		if err := w.AddRef(&RefRecord{RefName: "s", UpdateIndex: ui, Value: hashWith(hs, k, 2)}); err != nil {
			return err
		}
		if withLog {
			return w.AddLog(&LogRecord{RefName: "s", UpdateIndex: ui, Time: uint64(k), New: hashWith(hs, k, 2), Old: hashWith(hs, 0, 0), Message: "m\n"})
		}
		return nil
	})
}

// rangeTxnVal: as addTxnVal, but the table was prepared for the update indices
// [lo, lo+1] (its records carry lo+1) whatever the stack says by now.
func rangeTxnVal(st *Stack, k byte, payload byte, lo uint64) error {
	hs := hsOf(st.cfg)
	return st.Add(func(w *Writer) error {
		w.SetLimits(lo, lo+1)
		pv := hashWith(hs, k, 1)
		pv[3] = payload
		if err := w.AddRef(&RefRecord{RefName: "p" + string([]byte{'0' + k}), UpdateIndex: lo + 1, Value: pv}); err != nil {
			return err
		}
		if err := w.AddRef(&RefRecord{RefName: "s", UpdateIndex: lo + 1, Value: hashWith(hs, k, 2)}); err != nil {
			return err
		}
		return w.AddLog(&LogRecord{RefName: "s", UpdateIndex: lo + 1, Time: uint64(k), New: hashWith(hs, k, 2), Old: hashWith(hs, 0, 0), Message: "m\n"})
	})
}

// seedStack creates the initial stack of n tables through the real API.
func seedStack(dir string, cfg Config, n int) {
	st := mustOpen(dir, cfg, "seed-open")
	if st == nil {
		return
	}
	for i := 0; i < n; i++ {
		VerifAssert(addTxn(st, byte(i), true) == nil, "seed-add")
	}
	st.Close()
}

type stackSnapshot struct {
	refs    map[string]byte // name -> first value byte (0xff: present with another payload)
	payload map[string]byte // name -> value byte 3
	logs    int
	ok      bool
}

func snapshot(st *Stack, label string) stackSnapshot {
	s := stackSnapshot{refs: map[string]byte{}, payload: map[string]byte{}}
	m := st.Merged()
	it, err := m.SeekRef("")
	VerifAssert(err == nil, label+"-seekref")
	if err != nil {
		return s
	}
	for {
		var r RefRecord
		ok, err := it.NextRef(&r)
		VerifAssert(err == nil, label+"-nextref")
		if err != nil {
			return s
		}
		if !ok {
			break
		}
		v := byte(0xff)
		if len(r.Value) > 0 {
			v = r.Value[0]
			s.payload[r.RefName] = r.Value[3]
		}
		s.refs[r.RefName] = v
	}
	lit, err := m.SeekLog("", math.MaxUint64)
	VerifAssert(err == nil, label+"-seeklog")
	if err != nil {
		return s
	}
	for {
		var l LogRecord
		ok, err := lit.NextLog(&l)
		VerifAssert(err == nil, label+"-nextlog")
		if err != nil {
			return s
		}
		if !ok {
			break
		}
		s.logs++
	}
	s.ok = true
	return s
}

func isLockFailure(err error) bool { return err == nil || err == ErrLockFailure }

// quiescentDirOK: the directory holds exactly tables.list and the tables it names.
func quiescentDirOK(st *Stack) bool {
	names := map[string]bool{"tables.list": true}
	for _, r := range st.stack {
		names[r.Name()] = true
	}
	dir := VerifDirNames()
	if len(st.stack) == 0 {
		// nothing was ever committed: tables.list may be absent
		for _, n := range dir {
			if n != "tables.list" {
				return false
			}
		}
		return true
	}
	if len(dir) != len(names) {
		return false
	}
	for _, n := range dir {
		if !names[n] {
			return false
		}
	}
	return true
}

// ---------- operations ----------

const (
	opAdd = iota
	opAddAuto
	opCompactAll
	opCompactFirstTwo
	opReload
	opClean
	opClose
	opOpenAdd // the handle is opened inside the process, i.e. possibly after others committed
	opCompactLastTwo
	opTwoTables     // one Addition with two tables (private refs p<k> and t<k>), committed together
	opEmptyAdd      // a transaction without records: succeeds without creating a table
	opPreparedRange // a table prepared for the update indices [next, next+1] as the handle saw them at first, submitted unchanged and retried once, unchanged, after a lock failure
	nOps
)

var opNames = []string{"Add", "AddAuto", "CompactAll", "CompactFirstTwo", "Reload", "Clean", "Close", "OpenAdd", "CompactLastTwo", "TwoTables", "EmptyAdd", "PreparedRange"}

type procState struct {
	id        byte
	op        int
	st        *Stack
	err       error
	committed bool
	dir       string
	cfg       Config
	payload   byte // arbitrary (symbolic) content byte of the transaction
}

func runOp(p *procState) {
	switch p.op {
	case opOpenAdd:
		st, err := NewStack(p.dir, p.cfg)
		if err != nil {
			p.err = err
			return
		}
		st.disableAutoCompact = true
		p.st = st
		p.err = addTxnVal(st, p.id, p.payload, true)
	case opAdd:
		p.err = addTxnVal(p.st, p.id, p.payload, true)
	case opAddAuto:
		p.st.disableAutoCompact = false
		p.err = addTxnVal(p.st, p.id, p.payload, true)
	case opCompactAll:
		p.err = p.st.CompactAll(nil)
	case opCompactFirstTwo:
		if len(p.st.stack) >= 2 {
			_, p.err = p.st.compactRange(0, 1, nil)
		}
	case opCompactLastTwo:
		if n := len(p.st.stack); n >= 2 {
			_, p.err = p.st.compactRange(n-2, n-1, nil)
		}
	case opTwoTables:
		p.err = twoTableTxn(p.st, "p"+string([]byte{'0' + p.id}), "t"+string([]byte{'0' + p.id}))
	case opEmptyAdd:
		p.err = p.st.Add(func(w *Writer) error { return nil })
	case opPreparedRange:
		lo := p.st.NextUpdateIndex()
		for try := 0; try < 2; try++ {
			p.err = rangeTxnVal(p.st, p.id, p.payload, lo)
			if p.err != ErrLockFailure {
				break
			}
		}
	case opReload:
		p.err = p.st.reload(true)
	case opClean:
		p.err = p.st.Clean()
	case opClose:
		p.st.Close()
	}
}

func isAdder(op int) bool {
	return op == opAdd || op == opAddAuto || op == opOpenAdd || op == opTwoTables || op == opPreparedRange
}

func sortedKeysOf(m map[string]byte) string {
	var ks []string
	for k := range m {
		ks = append(ks, k)
	}
	sort.Strings(ks)
	return strings.Join(ks, ",")
}

const (
	chkFinal   = 1 << iota // C04: final view = model, add result = commit
	chkErrors              // C04: only lock failures
	chkResidue             // C16: nothing left behind at quiescence
	chkOpen                // C05: the directory opens at the end
	monList                // C05: list-integrity monitor after every step
	monLocks               // C08: lock-ownership monitor
	crashFirst             // the first process may be abandoned before any of its filesystem steps
)

// scenario: one operation per process (each on its own handle, opened before
// any of them runs), every schedule with at most maxPre preemptions.
func scenario(ops []int, nInit int, hash int, maxPre int, checks int) {
	cfg := stackCfg(hash)
	for _, op := range ops {
		if op == opTwoTables {
			// multi-table transactions also without name checking (another code path)
			cfg.SkipNameCheck = VerifChoose(2) == 1
		}
	}
	dir := VerifTempDir()
	if checks&monList != 0 {
		VerifMonitor("list")
	}
	if checks&monLocks != 0 {
		VerifMonitor("locks")
	}
	seedStack(dir, cfg, nInit)
	var procs []*procState
	for i, op := range ops {
		p := &procState{id: byte(7 + i), op: op, dir: dir, cfg: cfg}
		if isAdder(op) {
			p.payload = VerifU8()
		}
		if op != opOpenAdd {
			VerifAs(i + 1)
			p.st = mustOpen(dir, cfg, "open")
			if p.st == nil {
				return
			}
		}
		procs = append(procs, p)
	}
	VerifAs(0)
	for i, p := range procs {
		p := p
		if i == 0 && checks&crashFirst != 0 {
			VerifSpawnCrashable(func() { runOp(p) })
		} else {
			VerifSpawn(func() { runOp(p) })
		}
	}
	VerifRun(maxPre)
	if checks&chkErrors != 0 {
		for _, p := range procs {
			VerifAssert(isLockFailure(p.err), "error-other-than-lock-failure")
		}
	}
	finalChecks(dir, cfg, nInit, procs, checks)
	VerifCover("done")
}

// finalChecks: a fresh handle's view against the model: initial refs, the
// private ref of every committed adder, shared ref = last committed adder.
func finalChecks(dir string, cfg Config, nInit int, procs []*procState, checks int) {
	// VerifCommits reports process numbers (1-based, in spawn order)
	first := map[*procState]int{}
	for i, c := range VerifCommits() {
		if c >= 1 && c <= len(procs) {
			if _, ok := first[procs[c-1]]; !ok {
				first[procs[c-1]] = i
			}
		}
	}
	fin, err := NewStack(dir, cfg)
	if checks&(chkOpen|chkFinal) != 0 {
		VerifAssert(err == nil, "final-open")
	}
	if err != nil {
		return
	}
	defer fin.Close()
	if checks&chkResidue != 0 {
		VerifAssert(quiescentDirOK(fin), "residue-at-quiescence")
	}
	if checks&chkFinal == 0 {
		return
	}
	got := snapshot(fin, "final")
	if !got.ok {
		return
	}
	want := map[string]byte{}
	for i := 0; i < nInit; i++ {
		want["p"+string([]byte{'0' + byte(i)})] = byte(i)
	}
	lastShared, lastAt := byte(nInit-1), -1
	nLogs := nInit
	for _, p := range procs {
		if p.op == opEmptyAdd {
			_, committed := first[p]
			VerifAssert(isLockFailure(p.err) && !committed, "empty-transaction-created-a-table-or-failed-otherwise")
		}
		if !isAdder(p.op) {
			continue
		}
		at, committed := first[p]
		// Add returns success exactly when its transaction was committed (an
		// automatic compaction that loses a lock race afterwards is not a failure of the Add)
		VerifAssert((p.err == nil) == committed, "add-result-matches-commit")
		if committed && p.op == opTwoTables {
			want["p"+string([]byte{'0' + p.id})] = 1
			want["t"+string([]byte{'0' + p.id})] = 2
		} else if committed {
			want["p"+string([]byte{'0' + p.id})] = p.id
			nLogs++
			if at > lastAt {
				lastAt, lastShared = at, p.id
			}
		}
	}
	if nInit > 0 || lastAt >= 0 {
		want["s"] = lastShared
	}
	VerifObserve("final", sortedKeysOf(got.refs), got.logs)
	for n, v := range want {
		gv, ok := got.refs[n]
		VerifAssert(ok, "lost-update")
		VerifAssert(!ok || gv == v, "altered-update")
	}
	for _, p := range procs {
		if _, committed := first[p]; committed && isAdder(p.op) && p.op != opTwoTables {
			VerifAssert(got.payload["p"+string([]byte{'0' + p.id})] == p.payload, "altered-update")
		}
	}
	for n := range got.refs {
		_, ok := want[n]
		VerifAssert(ok, "phantom-update")
	}
	VerifAssert(got.logs == nLogs, "reflog-entries-lost-or-duplicated")
}

// quickPairs are the operation pairs explored by the quick tier.
var quickPairs = [][]int{
	{opAdd, opAdd},
	{opCompactAll, opAdd},
	{opCompactAll, opAddAuto},
	{opCompactFirstTwo, opCompactAll},
	{opAdd, opClean},
	{opCompactAll, opReload},
	{opAdd, opClose},
	{opAdd, opOpenAdd},
	{opOpenAdd, opOpenAdd},
	{opCompactAll, opOpenAdd},
	{opCompactLastTwo, opCompactAll},
	{opTwoTables, opOpenAdd},
	{opEmptyAdd, opCompactAll},
	{opCompactFirstTwo, opClose},
	{opPreparedRange, opAdd},
	{opCompactFirstTwo, opClean},
}

// pickPair returns an operation pair and the context bound to explore it with:
// quick: the listed pairs with <= 2 preemptions; thorough: the listed pairs with
// <= 3 preemptions and every pair of the 12 operations with <= 2.
func pickPair(extraPre int) ([]int, int) {
	if VerifTier() == 0 {
		return quickPairs[VerifChoose(len(quickPairs))], 2 + extraPre
	}
	if VerifChoose(2) == 0 {
		return quickPairs[VerifChoose(len(quickPairs))], 3 + extraPre
	}
	return []int{VerifChoose(nOps), VerifChoose(nOps)}, 2
}

// Harness_C04_pairs: two processes, one operation each: no lost, altered or phantom update; Add succeeds iff committed; only lock failures.
// bounds: 2 processes (own handles, opened before either runs); operation pairs: Add/Add, CompactAll/Add, CompactAll/Add+auto-compaction, compactRange(0,1)/CompactAll, Add/Clean, CompactAll/reload, Add/Close, Add/open+Add, open+Add/open+Add, CompactAll/open+Add, compactRange(top two)/CompactAll (open+Add: the handle is opened inside the process, so it may be fresh or stale) two-table Addition/open+Add, empty Add/CompactAll, compactRange(0,1)/Close, prepared [next,next+1] table with one unchanged retry/Add, compactRange(0,1)/Clean (thorough: all 144 pairs of the 12 operations); transaction payload byte arbitrary (symbolic); initial stack of 3 tables; every schedule with <= 2 preemptions at visible filesystem steps (thorough: the listed pairs with <= 3, all 144 pairs with <= 2); sha1
// covers: done
func Harness_C04_pairs() {
	ops, pre := pickPair(0)
	scenario(ops, 3, 0, pre, chkFinal|chkErrors)
}

// Harness_C04_sequential: without contention nothing fails: every operation of a lone, up-to-date handle succeeds, including transactions without records.
// bounds: one handle on a stack of 0..2 tables; 3 operations in sequence, each one of {Add, Add with automatic compaction, Add of a transaction without records (its callback never sets limits), two-table Addition, CompactAll}; then a fresh handle's view against the model
// covers: done
func Harness_C04_sequential() {
	cfg := stackCfg(0)
	dir := VerifTempDir()
	nInit := VerifIntRange(0, 2)
	seedStack(dir, cfg, nInit)
	VerifAs(1)
	st := mustOpen(dir, cfg, "open")
	if st == nil {
		return
	}
	var procs []*procState
	for i := 0; i < 3; i++ {
		op := []int{opAdd, opAddAuto, opEmptyAdd, opTwoTables, opCompactAll}[VerifChoose(5)]
		p := &procState{id: byte(7 + i), op: op, st: st, dir: dir, cfg: cfg, payload: byte(i)}
		st.disableAutoCompact = true
		runOp(p)
		VerifAssert(p.err == nil, "uncontended-operation-failed")
		procs = append(procs, p)
	}
	VerifAs(0)
	fin := mustOpen(dir, cfg, "final-open")
	if fin == nil {
		return
	}
	got := snapshot(fin, "final")
	want := nInit
	if nInit > 0 {
		want++ // the shared ref
	}
	last := byte(nInit - 1)
	sawAdd := false
	for _, p := range procs {
		switch p.op {
		case opAdd, opAddAuto:
			want++
			if !sawAdd && nInit == 0 {
				want++
			}
			sawAdd = true
			last = p.id
			VerifAssert(got.refs["p"+string([]byte{'0' + p.id})] == p.id, "lost-update")
		case opTwoTables:
			want += 2
		}
	}
	VerifAssert(len(got.refs) == want, "ref-count")
	if sawAdd || nInit > 0 {
		VerifAssert(got.refs["s"] == last, "shared-ref")
	}
	VerifCover("done")
}

// Harness_C04_sha256_thorough: the listed pairs on a SHA-256 stack.
// bounds: the quick pairs, <= 2 preemptions, hash sha256
// covers: done
func Harness_C04_sha256_thorough() {
	scenario(quickPairs[VerifChoose(len(quickPairs))], 3, 1, 2, chkFinal|chkErrors)
}

// Harness_C04_triples: three adders, two of which open their handle late (a lock deleted by a non-owner lets two of them commit over each other).
// bounds: 3 processes: Add, open+Add, open+Add on a stack of 1 table; every schedule with <= 3 preemptions
// covers: done
func Harness_C04_triples() {
	scenario([]int{opAdd, opOpenAdd, opOpenAdd}, 1, 0, 3, chkFinal|chkErrors)
}

// Harness_C04_triples_thorough: three processes.
// bounds: 3 processes: Add, Add and one of {CompactAll, Add+auto-compaction, Clean}; initial stack of 2 tables; <= 2 preemptions
// covers: done
func Harness_C04_triples_thorough() {
	scenario([]int{opAdd, opAdd, []int{opCompactAll, opAddAuto, opClean}[VerifChoose(3)]}, 2, 0, 2, chkFinal|chkErrors)
}

// Harness_C05_pairs: after every filesystem step tables.list names existing, complete, ordered tables; the directory opens at the end.
// bounds: as Harness_C04_pairs
// covers: done
func Harness_C05_pairs() {
	ops, pre := pickPair(0)
	scenario(ops, 3, 0, pre, chkOpen|monList)
}

// Harness_C08_pairs: a lock file is created only when absent and removed or renamed only by the process that created it.
// bounds: as Harness_C04_pairs, with one more preemption for the listed pairs (quick <= 3, thorough <= 4)
// covers: done
func Harness_C08_pairs() {
	ops, pre := pickPair(1)
	scenario(ops, 3, 0, pre, monLocks)
}

// Harness_C08_triples: three contending processes (the loser of a re-acquire race must not delete the winner's lock).
// bounds: 3 processes: CompactAll, Add, Add; initial stack of 2 tables; <= 2 preemptions (thorough 3)
// covers: done
func Harness_C08_triples() {
	scenario([]int{opCompactAll, opAdd, opAdd}, 2, 0, 2+VerifTier(), monLocks)
}

// Harness_C16_pairs: when all processes are idle the directory holds exactly tables.list and the tables it names (none left over, none missing: the directory opens).
// bounds: as Harness_C04_pairs
// covers: done
func Harness_C16_pairs() {
	ops, pre := pickPair(0)
	scenario(ops, 3, 0, pre, chkResidue|chkOpen)
}

// ---------- C05: disjoint compactions ----------

// Harness_C05_disjoint: two compactions of disjoint ranges racing (the list must never name a table one of them deleted).
// bounds: 2 processes on a stack of 4 tables: compactRange(0,1) and compactRange(2,3); every schedule with <= 3 preemptions (thorough 4)
// covers: done
func Harness_C05_disjoint() {
	cfg := stackCfg(0)
	dir := VerifTempDir()
	VerifMonitor("list")
	seedStack(dir, cfg, 4)
	VerifAs(1)
	h1 := mustOpen(dir, cfg, "open")
	VerifAs(2)
	h2 := mustOpen(dir, cfg, "open")
	VerifAs(0)
	if h1 == nil || h2 == nil {
		return
	}
	var e1, e2 error
	VerifSpawn(func() { _, e1 = h1.compactRange(0, 1, nil) })
	VerifSpawn(func() { _, e2 = h2.compactRange(2, 3, nil) })
	VerifRun(3 + VerifTier())
	_, _ = e1, e2
	fin, err := NewStack(dir, cfg)
	VerifAssert(err == nil, "final-open")
	if err != nil {
		return
	}
	got := snapshot(fin, "final")
	VerifAssert(len(got.refs) == 5 && got.logs == 4, "view-changed-by-compactions")
	VerifCover("done")
}

// ---------- C06: crash at every filesystem step ----------

const (
	crAdd = iota
	crAddAuto
	crTwoTables
	crCompactAll
	crCompactExpire
	crClean
	crClose
	nCrashOps
)

// Harness_C06_crash: a process abandoned before any of its filesystem steps leaves the previous or the next committed state, and the directory still opens.
// bounds: 1 process running Add / Add+auto-compaction / two-table Addition+Commit / CompactAll / CompactAll with expiry / Clean / Close on a stack of 1..3 tables (Clean and Close also on a handle that went stale because another process compacted the two lowest of 3 tables); crash immediately before every filesystem step (visible or not), or no crash; then a second process reads, and (thorough) adds
// covers: crashed, completed
func Harness_C06_crash() {
	cfg := stackCfg(0)
	dir := VerifTempDir()
	n := VerifIntRange(1, 3)
	op := VerifChoose(nCrashOps)
	seedStack(dir, cfg, n)
	VerifAs(1)
	st := mustOpen(dir, cfg, "open")
	VerifAs(0)
	if st == nil {
		return
	}
	stale := false
	if n == 3 && (op == crClose || op == crClean) && VerifChoose(2) == 1 {
		// the handle went stale: another process compacted the two lowest tables meanwhile
		VerifAs(3)
		other := mustOpen(dir, cfg, "open-other")
		if other == nil {
			return
		}
		ok, err := other.compactRange(0, 1, nil)
		VerifAssert(ok && err == nil, "other-compaction")
		other.Close()
		VerifAs(0)
		stale = true
	}
	var opErr error
	returned := false
	VerifSpawnCrashable(func() {
		switch op {
		case crAdd:
			opErr = addTxn(st, 7, true)
		case crAddAuto:
			st.disableAutoCompact = false
			opErr = addTxn(st, 7, true)
		case crTwoTables:
			opErr = twoTableTxn(st, "p7", "p8")
		case crCompactAll:
			opErr = st.CompactAll(nil)
		case crCompactExpire:
			opErr = st.CompactAll(&LogExpirationConfig{MinUpdateIndex: 2})
		case crClean:
			opErr = st.Clean()
		case crClose:
			st.Close()
		}
		returned = true
	})
	VerifRun(0)
	crashed := VerifCrashed()
	VerifAssert(crashed != returned, "crash-bookkeeping")
	if !crashed {
		VerifAssert(opErr == nil || (stale && opErr == ErrLockFailure), "operation-failed-without-interference")
	}
	VerifAs(2)
	fin, err := NewStack(dir, cfg)
	VerifAssert(err == nil, "reopen-after-crash")
	if err != nil {
		return
	}
	got := snapshot(fin, "after-crash")
	if !got.ok {
		return
	}
	// previous state
	preRefs, preLogs := n+1, n
	postRefs, postLogs := preRefs, preLogs
	switch op {
	case crAdd, crAddAuto:
		postRefs, postLogs = preRefs+1, preLogs+1
	case crTwoTables:
		postRefs = preRefs + 2
	case crCompactExpire:
		postLogs = n - 1 // entries with update index < 2 expire
		if postLogs < 0 {
			postLogs = 0
		}
	}
	isPre := len(got.refs) == preRefs && got.logs == preLogs && got.refs["s"] == byte(n-1)
	isPost := len(got.refs) == postRefs && got.logs == postLogs
	if op == crAdd || op == crAddAuto {
		isPost = isPost && got.refs["s"] == 7 && got.refs["p7"] == 7
	}
	if op == crTwoTables {
		_, a := got.refs["p7"]
		_, b := got.refs["p8"]
		isPost = isPost && a && b
	}
	for i := 0; i < n; i++ {
		v, ok := got.refs["p"+string([]byte{'0' + byte(i)})]
		VerifAssert(ok && v == byte(i), "committed-ref-lost-by-crash")
	}
	if crashed {
		VerifAssert(isPre || isPost, "partial-state-after-crash")
		VerifCover("crashed")
	} else {
		VerifAssert(isPost, "completed-operation-not-applied")
		VerifCover("completed")
	}
	if VerifTier() > 0 {
		// a later writer may be blocked by a leftover lock, nothing else
		fin.disableAutoCompact = true
		err := addTxn(fin, 9, false)
		VerifAssert(err == nil || err == ErrLockFailure, "writer-after-crash-fails-otherwise")
	}
}

// twoTableTxnKinds: the first table adds or deletes name1, the second adds name2.
func twoTableTxnKinds(st *Stack, name1 string, del1 bool, name2 string) error {
	hs := hsOf(st.cfg)
	tr, err := st.NewAddition()
	if err != nil {
		return err
	}
	defer tr.Close()
	for i, nm := range []string{name1, name2} {
		nm := nm
		ui := tr.nextUpdateIndex
		r := &RefRecord{RefName: nm, UpdateIndex: ui}
		if !(i == 0 && del1) {
			r.Value = hashWith(hs, byte(i+1), 3)
		}
		if err := tr.Add(func(w *Writer) error {
			w.SetLimits(ui, ui)
			return w.AddRef(r)
		}); err != nil {
			return err
		}
	}
	return tr.Commit()
}

// twoTableTxn adds two tables in one Addition and commits them together.
func twoTableTxn(st *Stack, name1, name2 string) error {
	hs := hsOf(st.cfg)
	tr, err := st.NewAddition()
	if err != nil {
		return err
	}
	defer tr.Close()
	for i, nm := range []string{name1, name2} {
		nm := nm
		ui := tr.nextUpdateIndex
		k := byte(i + 1)
		if err := tr.Add(func(w *Writer) error {
			w.SetLimits(ui, ui)
			return w.AddRef(&RefRecord{RefName: nm, UpdateIndex: ui, Value: hashWith(hs, k, 3)})
		}); err != nil {
			return err
		}
	}
	return tr.Commit()
}

// ---------- C09: stale handles ----------

func dirState(dir string, cfg Config) string {
	st, err := NewStack(dir, cfg)
	if err != nil {
		return "unopenable"
	}
	defer st.Close()
	return st.String() + " / " + strings.Join(VerifDirNames(), " ")
}

// Harness_C09_stale: a write through a stale handle never commits, leaves the directory unchanged, refreshes the handle; the retry succeeds with a fresh update index.
// bounds: sequential histories: handle H1 opens on a stack of 3 tables, on the still empty directory, or on a stack (a ref and its deletion) that the other handle's compaction then empties completely; another handle performs 1..2 operations from {Add, CompactAll, CompactAll with expiry, compaction of the two oldest tables (the top table keeps its name)}; then H1 attempts Add, NewAddition, CompactAll, Add with auto-compaction, or Clean; then H1 retries Add
// covers: done
func Harness_C09_stale() {
	cfg := stackCfg(0)
	dir := VerifTempDir()
	n0 := []int{3, 0, -1}[VerifChoose(3)] // H1 may also have been opened before the very first commit
	emptied := n0 < 0
	if emptied {
		// a ref created and deleted again: a full compaction leaves an empty tables.list
		n0 = 0
		VerifAs(2)
		if s0 := mustOpen(dir, cfg, "seed-open"); s0 != nil {
			for _, del := range []bool{false, true} {
				del := del
				VerifAssert(s0.Add(func(w *Writer) error {
					ui := s0.NextUpdateIndex()
					w.SetLimits(ui, ui)
					r := &RefRecord{RefName: "gone", UpdateIndex: ui}
					if !del {
						r.Value = hashWith(20, 3, 3)
					}
					return w.AddRef(r)
				}) == nil, "seed-gone")
			}
			s0.Close()
		}
	} else {
		seedStack(dir, cfg, n0)
	}
	VerifAs(1)
	h1 := mustOpen(dir, cfg, "open-h1")
	VerifAs(2)
	h2 := mustOpen(dir, cfg, "open-h2")
	if h1 == nil || h2 == nil {
		return
	}
	k := VerifIntRange(1, 2)
	maxCommitted := uint64(n0)
	for i := 0; i < k; i++ {
		c := VerifChoose(4)
		if n0 == 0 && i == 0 {
			c = 0 // nothing to compact yet
		}
		if emptied && i == 0 {
			c = 1 // the compaction that empties the list
		}
		switch c {
		case 3:
			// a compaction below the top table: the newest table keeps its name
			if len(h2.stack) >= 3 {
				ok, err := h2.compactRange(0, 1, nil)
				VerifAssert(ok && err == nil, "interfering-partial-compaction")
			} else {
				VerifAssert(addTxn(h2, byte(4+i), true) == nil, "interfering-add")
				maxCommitted++
			}
		case 0:
			VerifAssert(addTxn(h2, byte(4+i), true) == nil, "interfering-add")
			maxCommitted++
		case 1:
			VerifAssert(h2.CompactAll(nil) == nil, "interfering-compaction")
		case 2:
			VerifAssert(h2.CompactAll(&LogExpirationConfig{MinUpdateIndex: 1}) == nil, "interfering-expiry")
		}
	}
	VerifAs(0)
	before := dirState(dir, cfg)
	VerifAs(1)
	fresh, _ := h1.UpToDate()
	stale := !fresh
	VerifAssert(stale, "stale-handle-reported-up-to-date")
	what := VerifChoose(5)
	var err error
	switch what {
	case 0:
		err = addTxn(h1, 7, true)
		if stale {
			VerifAssert(err == ErrLockFailure, "stale-add-must-fail-with-lock-failure")
		}
	case 1:
		var tr *Addition
		tr, err = h1.NewAddition()
		if stale {
			VerifAssert(err == ErrLockFailure && tr == nil, "stale-newaddition-must-fail-with-lock-failure")
		}
		if tr != nil {
			tr.Close()
		}
	case 2:
		err = h1.CompactAll(nil)
	case 3:
		h1.disableAutoCompact = false
		err = addTxn(h1, 7, true)
		h1.disableAutoCompact = true
		if stale {
			VerifAssert(err == ErrLockFailure, "stale-add-must-fail-with-lock-failure")
		}
	case 4:
		err = h1.Clean()
		if stale {
			VerifAssert(err != nil, "stale-clean-must-not-run")
		}
	}
	VerifAs(0)
	if stale {
		VerifAssert(dirState(dir, cfg) == before, "stale-write-changed-the-directory")
	}
	VerifAs(1)
	if stale && (what == 0 || what == 3) {
		ok, e := h1.UpToDate()
		VerifAssert(e == nil && ok, "handle-not-refreshed-after-failed-add")
		nui := h1.NextUpdateIndex()
		if !emptied {
			VerifAssert(nui > maxCommitted, "next-update-index-not-beyond-committed")
		}
		VerifAssert(addTxn(h1, 8, true) == nil, "retry-after-refresh-failed")
		VerifCover("retried")
		VerifAs(0)
		fin := mustOpen(dir, cfg, "final-open")
		if fin != nil {
			got := snapshot(fin, "final")
			VerifAssert(got.refs["p8"] == 8 && got.refs["s"] == 8, "retry-not-committed")
		}
		if emptied {
			// update indices 1 and 2 were committed (the ref and its deletion) before the
			// compaction emptied tables.list; checked last so that it masks nothing else
			VerifAssert(nui > 2, "update-index-restarts-after-stack-emptied")
		}
	}
	VerifCover("done")
}

// ---------- C10: a reader under churn ----------

// consistentSnapshot: every initial ref is there, and the writer's transaction is visible entirely or not at all.
func consistentSnapshot(s stackSnapshot, nInit int, writerID byte) bool {
	if !s.ok {
		return false
	}
	for i := 0; i < nInit; i++ {
		if v, ok := s.refs["p"+string([]byte{'0' + byte(i)})]; !ok || v != byte(i) {
			return false
		}
	}
	_, hasP := s.refs["p"+string([]byte{'0' + writerID})]
	_, hasP2 := s.refs["p"+string([]byte{'0' + writerID + 1})] // the writer's second transaction, if any
	if hasP2 {
		// the second transaction is visible only together with the first
		return hasP && s.refs["s"] == writerID+1 && s.logs == nInit+2 && len(s.refs) == nInit+3
	}
	if hasP {
		return s.refs["s"] == writerID && s.logs == nInit+1 && len(s.refs) == nInit+2
	}
	return s.refs["s"] == byte(nInit-1) && s.logs == nInit && len(s.refs) == nInit+1
}

// Harness_C10_reader: a handle that reloads (or fails to) while others add and compact keeps reading one committed snapshot.
// bounds: reader handle R runs reload then a full scan; concurrently one writer handle runs Add, CompactAll, compactRange(0,1), Add followed by a compaction of the top two tables, compaction of the bottom two tables + Add + compaction of the top two, or compaction of tables 1..2 followed by two Adds (thorough: two writers, Add and CompactAll); stack of 3 tables; every schedule with <= 3 preemptions (thorough: <= 2 with three processes); list-integrity monitor after every filesystem step and a fresh open at the end
// covers: done
func Harness_C10_reader() {
	cfg := stackCfg(0)
	dir := VerifTempDir()
	const nInit = 3
	// a reload's garbage collection must never remove a table the list names
	VerifMonitor("list")
	seedStack(dir, cfg, nInit)
	VerifAs(1)
	r := mustOpen(dir, cfg, "open-reader")
	VerifAs(2)
	w := mustOpen(dir, cfg, "open-writer")
	var w2 *Stack
	if VerifTier() > 0 {
		VerifAs(3)
		w2 = mustOpen(dir, cfg, "open-writer2")
	}
	VerifAs(0)
	if r == nil || w == nil {
		return
	}
	wop := VerifChoose(6)
	if w2 != nil {
		wop = 0
	}
	VerifSpawn(func() {
		err := r.reload(true)
		_ = err // a reload may report failure, but the handle must stay readable
		s := snapshot(r, "reader-after-reload")
		VerifAssert(consistentSnapshot(s, nInit, 7), "reader-sees-mixed-or-broken-state")
		// reading again later still works
		s2 := snapshot(r, "reader-second-scan")
		VerifAssert(consistentSnapshot(s2, nInit, 7), "reader-sees-mixed-or-broken-state")
	})
	VerifSpawn(func() {
		switch wop {
		case 0:
			addTxn(w, 7, true)
		case 1:
			w.CompactAll(nil)
		case 2:
			w.compactRange(0, 1, nil)
		case 3:
			// a new table appears in the list and is compacted away again
			if addTxn(w, 7, true) == nil && len(w.stack) >= 2 {
				w.compactRange(len(w.stack)-2, len(w.stack)-1, nil)
			}
		case 5:
			// a compaction above the bottom table, then two additions (the list grows while its middle changes)
			w.compactRange(1, 2, nil)
			if addTxn(w, 7, true) == nil {
				addTxn(w, 8, true)
			}
		case 4:
			// the bottom of the list is replaced (positions of kept tables shift), a table is added and compacted away
			w.compactRange(0, 1, nil)
			if addTxn(w, 7, true) == nil && len(w.stack) >= 2 {
				w.compactRange(len(w.stack)-2, len(w.stack)-1, nil)
			}
		}
	})
	if w2 != nil {
		VerifSpawn(func() { w2.CompactAll(nil) })
		VerifRun(2)
	} else {
		VerifRun(3)
	}
	// whatever the reader's reload did on the way, the directory is still a stack
	VerifAs(0)
	fin := mustOpen(dir, cfg, "open-after-reader-and-writer")
	if fin != nil {
		VerifAssert(snapshot(fin, "final").ok, "listed-table-unreadable")
	}
	VerifCover("done")
}

// Harness_C10_behind: a handle that is several tables behind reloads while another process compacts tables the handle has never opened; the view it ends up with is still one committed list.
// bounds: reader R opened on a stack of 1 table; the stack then grows to 4 tables; R reloads and scans while a writer runs compactRange(1,2) (the tables new to R disappear between R reading the list and opening them, the top table survives), compactRange(2,3), or CompactAll; every schedule with <= 2 preemptions
// covers: done
func Harness_C10_behind() {
	cfg := stackCfg(0)
	dir := VerifTempDir()
	const nInit = 4
	VerifMonitor("list")
	seedStack(dir, cfg, 1)
	VerifAs(1)
	r := mustOpen(dir, cfg, "open-reader")
	VerifAs(2)
	w := mustOpen(dir, cfg, "open-writer")
	if w != nil {
		for i := 1; i < nInit; i++ {
			VerifAssert(addTxn(w, byte(i), true) == nil, "seed-add")
		}
	}
	VerifAs(0)
	if r == nil || w == nil {
		return
	}
	wop := VerifChoose(3)
	VerifSpawn(func() {
		err := r.reload(true)
		_ = err
		s := snapshot(r, "reader-after-reload")
		// R either still shows the one table it had, or all four transactions
		old := s.ok && len(s.refs) == 2 && s.refs["s"] == 0 && s.logs == 1
		VerifAssert(old || consistentSnapshot(s, nInit, 7), "reader-sees-mixed-or-broken-state")
	})
	VerifSpawn(func() {
		switch wop {
		case 0:
			w.compactRange(1, 2, nil)
		case 1:
			w.compactRange(2, 3, nil)
		case 2:
			w.CompactAll(nil)
		}
	})
	VerifRun(2)
	VerifAs(0)
	fin := mustOpen(dir, cfg, "open-after-reader-and-writer")
	if fin != nil {
		VerifAssert(consistentSnapshot(snapshot(fin, "final"), nInit, 7), "final-state-wrong")
	}
	VerifCover("done")
}

// Harness_C10_open_races: a process that opens the directory while another one compacts again and again loses the race between reading the list and opening the tables several times in a row; whenever the open succeeds it still shows a committed snapshot.
// bounds: stack of 4 tables; process 1 runs compactRange(0,1) three times; process 2 opens the directory (NewStack) and scans; deep but narrow schedules: <= 6 preemptions, offered only where a process is about to open a table file (between reading the list and opening what it names: each of the opener's attempts can be overtaken by one compaction)
// covers: done, lost-a-race
func Harness_C10_open_races() {
	cfg := stackCfg(0)
	dir := VerifTempDir()
	const nInit = 4
	seedStack(dir, cfg, nInit)
	VerifAs(1)
	w := mustOpen(dir, cfg, "open-writer")
	VerifAs(0)
	if w == nil {
		return
	}
	VerifSpawn(func() {
		for i := 0; i < 3; i++ {
			if len(w.stack) >= 2 {
				w.compactRange(0, 1, nil)
			}
		}
	})
	VerifSpawn(func() {
		st, err := NewStack(dir, cfg)
		if err != nil {
			// giving up is allowed; claiming success with something that was never committed is not
			VerifCover("lost-a-race")
			return
		}
		if len(st.stack) < nInit {
			VerifCover("lost-a-race")
		}
		s := snapshot(st, "opener")
		VerifAssert(consistentSnapshot(s, nInit, 7), "open-succeeded-with-a-state-never-committed")
	})
	VerifRunAt(6, "open table")
	VerifCover("done")
}

// Harness_C10_transactions: a handle's view after its own successful commit is the committed state, whatever other handles attempted while its transaction was open.
// bounds: sequential, 3 handles on a stack of 2 tables: handle A opens an Addition; handle B's Add is refused; handle C tries to open an Addition of its own (and, if it gets one, adds a table and leaves it open); A adds its table and commits; then A's view, C's fate and a fresh handle's view are checked
// covers: done
func Harness_C10_transactions() {
	cfg := stackCfg(0)
	dir := VerifTempDir()
	const nInit = 2
	seedStack(dir, cfg, nInit)
	VerifAs(1)
	a := mustOpen(dir, cfg, "open-a")
	VerifAs(2)
	b := mustOpen(dir, cfg, "open-b")
	VerifAs(3)
	c := mustOpen(dir, cfg, "open-c")
	if a == nil || b == nil || c == nil {
		return
	}
	VerifAs(1)
	tr, err := a.NewAddition()
	VerifAssert(err == nil, "a-newaddition")
	if err != nil {
		return
	}
	VerifAs(2)
	VerifAssert(addTxn(b, 8, true) == ErrLockFailure, "b-must-be-refused")
	VerifAs(3)
	trC, errC := c.NewAddition()
	VerifAssert(errC == ErrLockFailure && trC == nil, "second-transaction-opened-while-the-first-is-open")
	VerifAs(1)
	ui := tr.nextUpdateIndex
	err = tr.Add(func(w *Writer) error {
		w.SetLimits(ui, ui)
		if err := w.AddRef(&RefRecord{RefName: "p7", UpdateIndex: ui, Value: hashWith(20, 7, 1)}); err != nil {
			return err
		}
		if err := w.AddRef(&RefRecord{RefName: "s", UpdateIndex: ui, Value: hashWith(20, 7, 2)}); err != nil {
			return err
		}
		return w.AddLog(&LogRecord{RefName: "s", UpdateIndex: ui, Time: 7, New: hashWith(20, 7, 2), Old: hashWith(20, 0, 0), Message: "m\n"})
	})
	VerifAssert(err == nil, "a-add")
	err = tr.Commit()
	VerifAssert(err == nil, "a-commit")
	tr.Close()
	if trC != nil {
		trC.Close()
	}
	if err == nil {
		VerifAssert(consistentSnapshot(snapshot(a, "a-after-commit"), nInit, 7), "view-after-own-commit-is-not-the-committed-state")
	}
	VerifAs(0)
	fin := mustOpen(dir, cfg, "final-open")
	if fin != nil && err == nil {
		s := snapshot(fin, "final")
		VerifAssert(consistentSnapshot(s, nInit, 7) && s.refs["p7"] == 7, "committed-state-lost")
	}
	VerifCover("done")
}

// ---------- C12: API level ----------

// Harness_C12_api: transactions submitted through Add and through multi-table Additions are accepted exactly when the committed live set stays conflict-free.
// bounds: sequential: a first Add of one name, then either a second Add of one record (add or delete) or a two-table Addition (first table adds or deletes a name, second adds a name), names from the menu {a, a/b, a/b/c, a/c, ab, b}; name checking on
// covers: accepted, rejected
func Harness_C12_api() {
	cfg := stackCfg(0)
	dir := VerifTempDir()
	st := mustOpen(dir, cfg, "open")
	if st == nil {
		return
	}
	addNames := func(names []string, del bool) error {
		return st.Add(func(w *Writer) error {
			ui := st.NextUpdateIndex()
			w.SetLimits(ui, ui)
			for _, n := range names {
				r := &RefRecord{RefName: n, UpdateIndex: ui}
				if !del {
					r.Value = hashWith(20, 1, 1)
				}
				if err := w.AddRef(r); err != nil {
					return err
				}
			}
			return nil
		})
	}
	live := []string{apiMenu[VerifChoose(6)]}
	VerifAssert(addNames(live, false) == nil, "first-add")
	var err error
	var post []string
	if VerifChoose(2) == 0 {
		n := apiMenu[VerifChoose(6)]
		del := VerifChoose(2) == 1
		err = addNames([]string{n}, del)
		post = append(post, live...)
		if del {
			if post[0] == n {
				post = nil
			}
		} else if post[0] != n {
			post = append(post, n)
		}
	} else {
		// two tables in one Addition; the first may delete the live ref
		n1, n2 := apiMenu[VerifChoose(6)], apiMenu[VerifChoose(6)]
		del1 := VerifChoose(2) == 1
		if n1 == n2 {
			return
		}
		err = twoTableTxnKinds(st, n1, del1, n2)
		post = append(post, live...)
		if del1 {
			if post[0] == n1 {
				post = nil
			}
		} else if live[0] != n1 {
			post = append(post, n1)
		}
		if live[0] != n2 || len(post) == 0 {
			post = append(post, n2)
		}
	}
	if specNameConflicts(post) {
		VerifAssert(err != nil, "conflicting-transaction-accepted")
		VerifCover("rejected")
	} else {
		VerifAssert(err == nil, "legal-transaction-refused")
		VerifCover("accepted")
	}
	// whatever happened, the committed live set is conflict-free
	fin := mustOpen(dir, cfg, "final-open")
	if fin == nil {
		return
	}
	var names []string
	for n := range snapshot(fin, "final").refs {
		names = append(names, n)
	}
	VerifAssert(!specNameConflicts(names), "live-refs-conflict")
}

// Harness_C12_batch: an Addition used as a batch - tables are added one by one, a refused table is skipped and the rest is committed - leaves a conflict-free live set that holds exactly the accepted tables.
// bounds: sequential: a first Add of one name, then one Addition of two single-ref tables (names from the menu {a, a/b, a/b/c, a/c, ab, b}, the first an addition or a deletion); a table refused by Addition.Add is dropped by the caller, the others are committed; name checking on; the directory is then read by a second handle
// covers: refused-then-committed, all-accepted
func Harness_C12_batch() {
	cfg := stackCfg(0)
	dir := VerifTempDir()
	st := mustOpen(dir, cfg, "open")
	if st == nil {
		return
	}
	first := apiMenu[VerifChoose(6)]
	err := st.Add(func(w *Writer) error {
		ui := st.NextUpdateIndex()
		w.SetLimits(ui, ui)
		return w.AddRef(&RefRecord{RefName: first, UpdateIndex: ui, Value: hashWith(20, 1, 1)})
	})
	VerifAssert(err == nil, "first-add")
	n1, n2 := apiMenu[VerifChoose(6)], apiMenu[VerifChoose(6)]
	del1 := VerifChoose(2) == 1
	if n1 == n2 {
		return
	}
	tr, err := st.NewAddition()
	VerifAssert(err == nil, "new-addition")
	if err != nil {
		return
	}
	live := map[string]bool{first: true}
	refused := 0
	for i, nm := range []string{n1, n2} {
		nm := nm
		ui := tr.nextUpdateIndex
		r := &RefRecord{RefName: nm, UpdateIndex: ui}
		del := i == 0 && del1
		if !del {
			r.Value = hashWith(20, byte(i+2), 3)
		}
		err := tr.Add(func(w *Writer) error {
			w.SetLimits(ui, ui)
			return w.AddRef(r)
		})
		if err != nil {
			refused++
			continue
		}
		if del {
			delete(live, nm)
		} else {
			live[nm] = true
		}
	}
	err = tr.Commit()
	tr.Close()
	VerifAssert(err == nil, "batch-commit")
	if refused > 0 {
		VerifCover("refused-then-committed")
	} else {
		VerifCover("all-accepted")
	}
	fin := mustOpen(dir, cfg, "final-open")
	if fin == nil {
		return
	}
	got := snapshot(fin, "final").refs
	var names []string
	for n := range got {
		names = append(names, n)
	}
	VerifAssert(!specNameConflicts(names), "live-refs-conflict")
	VerifAssert(len(got) == len(live), "batch-live-set-size")
	for n := range live {
		_, ok := got[n]
		VerifAssert(ok, "batch-accepted-ref-missing")
	}
}

// Harness_C12_handles: a transaction submitted through a handle that is behind is checked against the live set as it is now, not as the handle remembers it.
// bounds: sequential: handle 1 adds a name; handle 2 opens; handle 1 deletes that name or adds another one; handle 2 (now behind) adds a third name, retrying once after a lock failure; names from the menu {a, a/b, a/b/c, a/c, ab, b}; a third handle then reads
// covers: accepted, rejected
func Harness_C12_handles() {
	cfg := stackCfg(0)
	dir := VerifTempDir()
	VerifAs(1)
	h1 := mustOpen(dir, cfg, "open-h1")
	if h1 == nil {
		return
	}
	add1 := func(st *Stack, n string, del bool) error {
		return st.Add(func(w *Writer) error {
			ui := st.NextUpdateIndex()
			w.SetLimits(ui, ui)
			r := &RefRecord{RefName: n, UpdateIndex: ui}
			if !del {
				r.Value = hashWith(20, 1, 1)
			}
			return w.AddRef(r)
		})
	}
	n1 := apiMenu[VerifChoose(6)]
	VerifAssert(add1(h1, n1, false) == nil, "first-add")
	VerifAs(2)
	h2 := mustOpen(dir, cfg, "open-h2")
	if h2 == nil {
		return
	}
	VerifAs(1)
	live := []string{n1}
	if VerifChoose(2) == 0 {
		VerifAssert(add1(h1, n1, true) == nil, "h1-delete")
		live = nil
	} else {
		n2 := apiMenu[VerifChoose(6)]
		if n2 != n1 && !specNameConflicts([]string{n1, n2}) {
			VerifAssert(add1(h1, n2, false) == nil, "h1-second-add")
			live = append(live, n2)
		}
	}
	VerifAs(2)
	n3 := apiMenu[VerifChoose(6)]
	err := add1(h2, n3, false)
	if err == ErrLockFailure {
		err = add1(h2, n3, false)
	}
	post := append([]string{}, live...)
	dup := false
	for _, n := range live {
		if n == n3 {
			dup = true
		}
	}
	if !dup {
		post = append(post, n3)
	}
	if specNameConflicts(post) {
		VerifAssert(err != nil, "conflicting-transaction-accepted")
		VerifCover("rejected")
	} else {
		VerifAssert(err == nil, "legal-transaction-refused")
		VerifCover("accepted")
		live = post
	}
	VerifAs(3)
	fin := mustOpen(dir, cfg, "final-open")
	if fin == nil {
		return
	}
	got := snapshot(fin, "final").refs
	var names []string
	for n := range got {
		names = append(names, n)
	}
	VerifAssert(!specNameConflicts(names), "live-refs-conflict")
	VerifAssert(len(got) == len(live), "live-set-size")
}

// ---------- C16: sequential failure paths ----------

// Harness_C16_failures: failed and rejected operations, and Close/Clean on any stack, leave nothing behind and never remove a listed table.
// bounds: sequential: stack of 0..2 tables; one of: Add whose write function fails, Add with limits below the stack (rejected), stale Add (lock failure), empty Add, Clean, Close, CompactAll, a two-table Addition whose second table is rejected and which is then closed (name checking on and off), a compaction whose result is empty, a compaction and an Add by a handle whose Config the table writer refuses, CompactAll with reflog expiry; then the directory must hold exactly tables.list and the listed tables; also Clean/Close after another process was abandoned in the middle of an Add (leftover temporary and lock files)
// covers: done
func Harness_C16_failures() {
	cfg := stackCfg(0)
	dir := VerifTempDir()
	n := VerifIntRange(0, 2)
	seedStack(dir, cfg, n)
	VerifAs(1)
	st := mustOpen(dir, cfg, "open")
	if st == nil {
		return
	}
	leftover := false
	switch VerifChoose(12) {
	case 11:
		// a compaction with reflog expiry, also on an empty and on a one-table stack
		VerifAssert(st.CompactAll(&LogExpirationConfig{MinUpdateIndex: 1}) == nil, "compactall-with-expiry-failed")
	case 10:
		// a handle whose Config the table writer refuses (block size beyond 24 bits): its compaction and its Add fail, and leave nothing behind
		bad := cfg
		bad.BlockSize = 1 << 24
		st3, err := NewStack(dir, bad)
		VerifAssert(err == nil, "open-bad-config")
		if err != nil {
			return
		}
		if VerifChoose(2) == 0 {
			err = st3.CompactAll(nil)
			if n == 2 {
				VerifAssert(err != nil, "compaction-with-unwritable-config-succeeded")
			}
		} else {
			err = st3.Add(func(w *Writer) error {
				ui := st3.NextUpdateIndex()
				w.SetLimits(ui, ui)
				return w.AddRef(&RefRecord{RefName: "x", UpdateIndex: ui, Value: hashWith(20, 1, 1)})
			})
			VerifAssert(err != nil, "add-with-unwritable-config-succeeded")
		}
		st3.Close()
	case 9:
		// a compaction whose result is empty (a ref created and then deleted): no table, no temporary file
		VerifAssert(st.Add(func(w *Writer) error {
			ui := st.NextUpdateIndex()
			w.SetLimits(ui, ui)
			return w.AddRef(&RefRecord{RefName: "gone", UpdateIndex: ui, Value: hashWith(20, 3, 3)})
		}) == nil, "add-gone")
		VerifAssert(st.Add(func(w *Writer) error {
			ui := st.NextUpdateIndex()
			w.SetLimits(ui, ui)
			return w.AddRef(&RefRecord{RefName: "gone", UpdateIndex: ui})
		}) == nil, "delete-gone")
		if n == 0 {
			VerifAssert(st.CompactAll(nil) == nil, "empty-compaction")
		} else {
			ok, err := st.compactRange(len(st.stack)-2, len(st.stack)-1, nil)
			VerifAssert(ok && err == nil, "partial-compaction")
		}
	case 8:
		// a multi-table Addition whose second table is rejected, then closed (with and without name checking)
		cfg2 := cfg
		cfg2.SkipNameCheck = VerifChoose(2) == 1
		st2, err := NewStack(dir, cfg2)
		VerifAssert(err == nil, "open-skipcheck")
		if err != nil {
			return
		}
		tr, err := st2.NewAddition()
		VerifAssert(err == nil, "newaddition")
		if err != nil {
			return
		}
		ui := tr.nextUpdateIndex
		VerifAssert(tr.Add(func(w *Writer) error {
			w.SetLimits(ui, ui)
			return w.AddRef(&RefRecord{RefName: "x", UpdateIndex: ui, Value: hashWith(20, 1, 1)})
		}) == nil, "first-table")
		err = tr.Add(func(w *Writer) error { // same update index again: rejected
			w.SetLimits(ui, ui)
			return w.AddRef(&RefRecord{RefName: "y", UpdateIndex: ui, Value: hashWith(20, 1, 1)})
		})
		VerifAssert(err != nil, "second-table-must-be-rejected")
		tr.Close()
		st2.Close()
	case 0:
		err := st.Add(func(w *Writer) error { return fmtError })
		VerifAssert(err == fmtError, "failing-write-func-error")
	case 1:
		err := st.Add(func(w *Writer) error {
			w.SetLimits(0, 0)
			return w.AddRef(&RefRecord{RefName: "x", UpdateIndex: 0, Value: hashWith(20, 1, 1)})
		})
		VerifAssert(err != nil, "rejected-limits")
	case 2:
		VerifAs(2)
		other := mustOpen(dir, cfg, "open-other")
		if other == nil {
			return
		}
		VerifAssert(addTxn(other, 5, false) == nil, "other-add")
		other.Close()
		VerifAs(1)
		VerifAssert(addTxn(st, 6, false) == ErrLockFailure, "stale-add")
	case 3:
		VerifAssert(st.Add(func(w *Writer) error { return nil }) == nil, "empty-add")
	case 4:
		VerifAssert(st.Clean() == nil, "clean-failed")
	case 5:
		st.Close()
	case 6:
		VerifAssert(st.CompactAll(nil) == nil, "compactall-failed")
	case 7:
		// another process is abandoned in the middle of an Add
		VerifAs(2)
		other := mustOpen(dir, cfg, "open-other")
		if other == nil {
			return
		}
		VerifSpawnCrashable(func() { addTxn(other, 5, false) })
		VerifRun(0)
		leftover = VerifCrashed()
		VerifAs(1)
		if VerifChoose(2) == 0 {
			err := st.Clean()
			VerifAssert(err == nil || err == ErrLockFailure, "clean-after-crash")
		} else {
			st.Close()
		}
	}
	VerifAs(0)
	fin, err := NewStack(dir, cfg)
	VerifAssert(err == nil, "final-open")
	if err != nil {
		return
	}
	// listed tables are all there (reading them works)
	s := snapshot(fin, "final")
	VerifAssert(s.ok, "listed-table-removed")
	if !leftover {
		VerifAssert(quiescentDirOK(fin), "residue-after-operation")
	}
	VerifCover("done")
}

// Harness_C05_crash: the list stays valid at every instant also when a process is abandoned at any point while another one carries on.
// bounds: 2 processes: the first (Add with auto-compaction, CompactAll, or compactRange(0,1)) may be abandoned immediately before any of its filesystem steps; the second runs open+Add; stack of 3 tables; <= 1 preemption besides the crash
// covers: done
func Harness_C05_crash() {
	op := []int{opAddAuto, opCompactAll, opCompactFirstTwo}[VerifChoose(3)]
	scenario([]int{op, opOpenAdd}, 3, 0, 1, chkOpen|monList|crashFirst)
}

// ---------- round-2 additions ----------

// addRangeTxn adds one table whose limits span [lo,hi] with one ref at lo.
func addRangeTxn(tr *Addition, name string, lo, hi uint64) error {
	hs := hsOf(tr.stack.cfg)
	return tr.Add(func(w *Writer) error {
		w.SetLimits(lo, hi)
		return w.AddRef(&RefRecord{RefName: name, UpdateIndex: lo, Value: hashWith(hs, 1, 7)})
	})
}

// Harness_C05_ranges: tables whose limits span several update indices: a multi-table Addition never commits overlapping ranges.
// bounds: sequential; stack of 1 table; one Addition with two tables: the first spans [n, n+d1] (d1 in 0..2), the second starts at any of n, n+1, n+d1, n+d1+1 and spans 0..1 more; name checking on and off; the list-integrity monitor runs after every step and the directory must open afterwards
// covers: done
func Harness_C05_ranges() {
	cfg := stackCfg(0)
	cfg.SkipNameCheck = VerifChoose(2) == 1
	dir := VerifTempDir()
	VerifMonitor("list")
	seedStack(dir, cfg, 1)
	st := mustOpen(dir, cfg, "open")
	if st == nil {
		return
	}
	tr, err := st.NewAddition()
	VerifAssert(err == nil, "newaddition")
	if err != nil {
		return
	}
	n := tr.nextUpdateIndex
	d1 := uint64(VerifChoose(3))
	e1 := addRangeTxn(tr, "x", n, n+d1)
	VerifAssert(e1 == nil, "first-table")
	lo2 := []uint64{n, n + 1, n + d1, n + d1 + 1}[VerifChoose(4)]
	e2 := addRangeTxn(tr, "y", lo2, lo2+uint64(VerifChoose(2)))
	if lo2 <= n+d1 {
		VerifAssert(e2 != nil, "overlapping-table-accepted")
	} else {
		VerifAssert(e2 == nil, "ordered-table-refused")
	}
	cerr := tr.Commit()
	tr.Close()
	VerifAssert(cerr == nil, "commit-failed")
	fin, err := NewStack(dir, cfg)
	VerifAssert(err == nil, "final-open")
	if err != nil {
		return
	}
	s := snapshot(fin, "final")
	_, hasX := s.refs["x"]
	VerifAssert(hasX, "committed-table-missing")
	VerifCover("done")
}

// Harness_C05_limits: whatever limits a transaction declares, the list never names a table with an empty (inverted) update-index range or a range at or below its predecessor's; a refused transaction changes nothing and the next ordinary transaction still commits.
// bounds: sequential; stack of 1 table ([1,1]); one Add whose writer declares limits [lo, hi] with lo, hi in 0..4 independently (inverted ranges included) and holds a ref (update index lo, only when lo <= hi), a reflog entry (update index lo or hi), or both; then an ordinary Add; list-integrity monitor (existence, completeness, increasing and non-empty ranges) after every step; the directory must open afterwards
// covers: accepted, refused
func Harness_C05_limits() {
	cfg := stackCfg(0)
	dir := VerifTempDir()
	VerifMonitor("list")
	seedStack(dir, cfg, 1)
	st := mustOpen(dir, cfg, "open")
	if st == nil {
		return
	}
	lo, hi := uint64(VerifChoose(5)), uint64(VerifChoose(5))
	what := VerifChoose(3) // 0 ref, 1 log, 2 both
	if what != 1 && lo > hi {
		return // the writer refuses every ref for such limits: nothing to submit
	}
	logIdx := lo
	if VerifChoose(2) == 1 {
		logIdx = hi
	}
	err := st.Add(func(w *Writer) error {
		w.SetLimits(lo, hi)
		if what != 1 {
			if err := w.AddRef(&RefRecord{RefName: "x", UpdateIndex: lo, Value: hashWith(20, 5, 5)}); err != nil {
				return err
			}
		}
		if what != 0 {
			return w.AddLog(&LogRecord{RefName: "x", UpdateIndex: logIdx, Time: 7, New: hashWith(20, 5, 5), Old: hashWith(20, 0, 0), Message: "m\n"})
		}
		return nil
	})
	if lo >= 2 && lo <= hi {
		VerifAssert(err == nil, "ordered-table-refused")
		VerifCover("accepted")
	} else {
		VerifAssert(err != nil, "table-with-bad-range-accepted")
		VerifCover("refused")
	}
	VerifAssert(addTxn(st, 6, true) == nil, "next-add")
	fin, ferr := NewStack(dir, cfg)
	VerifAssert(ferr == nil, "final-open")
	if ferr != nil {
		return
	}
	s := snapshot(fin, "final")
	_, hasX := s.refs["x"]
	VerifAssert(hasX == (err == nil && what != 1), "refused-transaction-left-an-effect")
	VerifAssert(s.refs["p6"] == 6, "next-transaction-missing")
}

// Harness_C09_prepared: a transaction prepared (limits chosen) before the handle went stale is refused again after the refresh instead of committing below a committed index.
// bounds: sequential: H1 prepares limits [lo, lo+d] (d in 0..1) from its view of a 2-table stack; another handle adds 1..2 tables; H1 submits the prepared transaction twice
// covers: done
func Harness_C09_prepared() {
	cfg := stackCfg(0)
	dir := VerifTempDir()
	seedStack(dir, cfg, 2)
	VerifAs(1)
	h1 := mustOpen(dir, cfg, "open-h1")
	VerifAs(2)
	h2 := mustOpen(dir, cfg, "open-h2")
	if h1 == nil || h2 == nil {
		return
	}
	lo := h1.NextUpdateIndex()
	hi := lo + uint64(VerifChoose(2))
	k := VerifIntRange(1, 2)
	for i := 0; i < k; i++ {
		VerifAssert(addTxn(h2, byte(4+i), true) == nil, "interfering-add")
	}
	VerifAs(0)
	before := dirState(dir, cfg)
	VerifAs(1)
	prepared := func(w *Writer) error {
		w.SetLimits(lo, hi)
		return w.AddRef(&RefRecord{RefName: "prep", UpdateIndex: lo, Value: hashWith(20, 9, 9)})
	}
	VerifAssert(h1.Add(prepared) == ErrLockFailure, "stale-add-must-fail-with-lock-failure")
	err := h1.Add(prepared)
	VerifAssert(err == ErrLockFailure, "transaction-below-committed-index-not-refused")
	VerifAs(0)
	VerifAssert(dirState(dir, cfg) == before, "stale-write-changed-the-directory")
	VerifCover("done")
}

// Harness_C06_second: after a process was abandoned mid-operation another process compacts or adds: nothing committed is lost and the directory stays openable.
// bounds: process 1 (Add with auto-compaction, CompactAll, compactRange(0,1) or compactRange(1,2)) on a stack of 3 tables is abandoned before any of its filesystem steps; then process 2 (its handle opened after the crash, or before process 1 started) runs CompactAll, Add, or Clean; then a fresh handle reads
// covers: done
func Harness_C06_second() {
	cfg := stackCfg(0)
	dir := VerifTempDir()
	const n = 3
	seedStack(dir, cfg, n)
	VerifAs(1)
	st := mustOpen(dir, cfg, "open")
	VerifAs(0)
	if st == nil {
		return
	}
	op := VerifChoose(4)
	// the second process's handle may have been opened before the first one started (it is then behind)
	early := VerifChoose(2) == 1
	var p2 *Stack
	if early {
		VerifAs(2)
		p2 = mustOpen(dir, cfg, "open-second-early")
		VerifAs(0)
		if p2 == nil {
			return
		}
	}
	VerifSpawnCrashable(func() {
		switch op {
		case 0:
			st.disableAutoCompact = false
			addTxn(st, 7, true)
		case 1:
			st.CompactAll(nil)
		case 2:
			st.compactRange(0, 1, nil)
		case 3:
			st.compactRange(1, 2, nil) // leaves locks on the upper tables only
		}
	})
	VerifRun(0)
	VerifAs(2)
	if !early {
		p2 = mustOpen(dir, cfg, "reopen-after-crash")
		if p2 == nil {
			return
		}
	}
	var e2 error
	added := false
	switch VerifChoose(3) {
	case 0:
		e2 = p2.CompactAll(nil)
	case 1:
		e2 = addTxn(p2, 8, true)
		added = e2 == nil
	case 2:
		e2 = p2.Clean()
	}
	VerifAssert(isLockFailure(e2), "second-process-fails-otherwise")
	VerifAs(0)
	fin, err := NewStack(dir, cfg)
	VerifAssert(err == nil, "reopen-after-second-process")
	if err != nil {
		return
	}
	got := snapshot(fin, "after-second-process")
	for i := 0; i < n; i++ {
		v, ok := got.refs["p"+string([]byte{'0' + byte(i)})]
		VerifAssert(ok && v == byte(i), "committed-ref-lost")
	}
	if added {
		VerifAssert(got.refs["p8"] == 8 && got.refs["s"] == 8, "second-process-add-lost")
	}
	VerifCover("done")
}

// Harness_C06_contended: a process that is refused the list lock, retries and is abandoned anywhere in the retry does not harm the transaction of the process that holds the lock.
// bounds: stack of 2 tables; process 1 opens an Addition (holds tables.list.lock); process 2's Add is refused, its retry is abandoned before any of its filesystem steps (or completes, refused again); then process 1 adds its table and commits; a fresh handle reads
// covers: done
func Harness_C06_contended() {
	cfg := stackCfg(0)
	dir := VerifTempDir()
	const n = 2
	seedStack(dir, cfg, n)
	VerifAs(1)
	a := mustOpen(dir, cfg, "open-a")
	VerifAs(2)
	b := mustOpen(dir, cfg, "open-b")
	if a == nil || b == nil {
		return
	}
	VerifAs(1)
	tr, err := a.NewAddition()
	VerifAssert(err == nil, "a-newaddition")
	if err != nil {
		return
	}
	VerifAs(2)
	VerifAssert(addTxn(b, 8, true) == ErrLockFailure, "b-must-be-refused")
	VerifAs(0)
	VerifSpawnCrashable(func() { addTxn(b, 8, true) })
	VerifRun(0)
	VerifAs(1)
	ui := tr.nextUpdateIndex
	err = tr.Add(func(w *Writer) error {
		w.SetLimits(ui, ui)
		return w.AddRef(&RefRecord{RefName: "p7", UpdateIndex: ui, Value: hashWith(20, 7, 1)})
	})
	if err == nil {
		err = tr.Commit()
	}
	tr.Close()
	VerifAs(0)
	fin, ferr := NewStack(dir, cfg)
	VerifAssert(ferr == nil, "reopen-after-contention")
	if ferr != nil {
		return
	}
	got := snapshot(fin, "after-contention")
	for i := 0; i < n; i++ {
		v, ok := got.refs["p"+string([]byte{'0' + byte(i)})]
		VerifAssert(ok && v == byte(i), "committed-ref-lost")
	}
	if err == nil {
		VerifAssert(got.refs["p7"] == 7, "acknowledged-transaction-lost")
	}
	VerifCover("done")
}

// Harness_C06_acked: once Add has returned success its transaction is part of every later state, also when it committed while another process was merging tables and that process is then killed anywhere (or runs to its end).
// bounds: stack of 2 tables; process 1 runs CompactAll and may be abandoned before any of its filesystem steps; process 2 runs Add; every schedule with <= 2 preemptions at visible steps; a fresh handle reads afterwards
// covers: done
func Harness_C06_acked() {
	cfg := stackCfg(0)
	dir := VerifTempDir()
	const n = 2
	seedStack(dir, cfg, n)
	VerifAs(1)
	a := mustOpen(dir, cfg, "open-a")
	VerifAs(2)
	b := mustOpen(dir, cfg, "open-b")
	VerifAs(0)
	if a == nil || b == nil {
		return
	}
	var addErr error = ErrLockFailure
	VerifSpawnCrashable(func() { a.CompactAll(nil) })
	VerifSpawn(func() { addErr = addTxn(b, 7, true) })
	VerifRun(2)
	VerifAs(0)
	fin, ferr := NewStack(dir, cfg)
	VerifAssert(ferr == nil, "reopen-after-crash")
	if ferr != nil {
		return
	}
	got := snapshot(fin, "after-crash")
	for i := 0; i < n; i++ {
		v, ok := got.refs["p"+string([]byte{'0' + byte(i)})]
		VerifAssert(ok && v == byte(i), "committed-ref-lost")
	}
	if addErr == nil {
		VerifAssert(got.refs["p7"] == 7 && got.refs["s"] == 7, "acknowledged-transaction-lost")
	} else {
		_, has := got.refs["p7"]
		VerifAssert(!has, "refused-transaction-left-an-effect")
	}
	VerifCover("done")
}

// Harness_C06_openfault: an operation that meets one failing open (too many open files) at any point fails or succeeds as a whole: reopening shows the state before or the state after, and the state after once the operation reported success.
// bounds: one handle on a stack of 2 tables; operation Add, a two-table Addition (name checking off and on), CompactAll, or none; either the k-th open of a file (k = 1..10) by the operation fails once, or the k-th read of tables.list (k = 1..5) by the operation or by the Close that follows; the handle is closed, then a fresh handle reads
// assumes: the only I/O fault is the one failing open or read (injected by the harness; the properties otherwise exclude I/O faults)
// covers: done, failed
func Harness_C06_openfault() {
	cfg := stackCfg(0)
	cfg.SkipNameCheck = VerifChoose(2) == 1
	dir := VerifTempDir()
	const n = 2
	seedStack(dir, cfg, n)
	st := mustOpen(dir, cfg, "open")
	if st == nil {
		return
	}
	op := VerifChoose(4)
	readFault := VerifChoose(2) == 1
	if readFault {
		VerifFaultReadFile(VerifIntRange(1, 5)) // stays armed through Close
	} else {
		VerifFaultOpen(VerifIntRange(1, 10))
	}
	var err error
	switch op {
	case 0:
		err = addTxn(st, 7, true)
	case 1:
		err = twoTableTxn(st, "p7", "q7")
	case 2:
		err = st.CompactAll(nil)
	case 3:
		// nothing but the Close below
	}
	VerifFaultOpen(0)
	st.Close()
	VerifFaultReadFile(0)
	if err != nil {
		VerifCover("failed")
	}
	fin, ferr := NewStack(dir, cfg)
	VerifAssert(ferr == nil, "reopen-after-fault")
	if ferr != nil {
		return
	}
	got := snapshot(fin, "after-fault")
	for i := 0; i < n; i++ {
		v, ok := got.refs["p"+string([]byte{'0' + byte(i)})]
		VerifAssert(ok && v == byte(i), "committed-ref-lost")
	}
	_, has := got.refs["p7"]
	if op == 1 {
		_, hasQ := got.refs["q7"]
		VerifAssert(has == hasQ, "partially-applied-transaction")
	}
	if op < 2 {
		if err == nil {
			VerifAssert(has, "acknowledged-transaction-lost")
		}
	} else {
		VerifAssert(!has, "phantom-update")
	}
	VerifCover("done")
}

// stackUniverse builds a stack of k tables through the real API; table t holds ref "a" as {absent,value,deletion} and ref "b" as {absent,value}, a reflog entry for a@t+1 or a reflog deletion of a@t (choices), plus ref "z" in the last table.
func stackUniverse(st *Stack, k int) {
	hs := hsOf(st.cfg)
	for t := 0; t < k; t++ {
		ca, cb, cl := VerifChoose(3), VerifChoose(2), 0
		if t > 0 {
			cl = VerifChoose(3) // reflog entry / reflog deletion (of the entry below) in the upper tables
		} else {
			cl = VerifChoose(2)
		}
		last := t == k-1
		if ca == 0 && cb == 0 && cl == 0 && !last {
			cb = 1 // a stack never holds an empty table
		}
		tt := t
		VerifAssert(st.Add(func(w *Writer) error {
			ui := st.NextUpdateIndex()
			w.SetLimits(ui, ui)
			switch ca {
			case 1:
				if err := w.AddRef(&RefRecord{RefName: "a", UpdateIndex: ui, Value: hashWith(hs, byte(tt), 1)}); err != nil {
					return err
				}
			case 2:
				if err := w.AddRef(&RefRecord{RefName: "a", UpdateIndex: ui}); err != nil {
					return err
				}
			}
			if cb == 1 {
				if err := w.AddRef(&RefRecord{RefName: "b", UpdateIndex: ui, Target: "a"}); err != nil {
					return err
				}
			}
			if last {
				if err := w.AddRef(&RefRecord{RefName: "z", UpdateIndex: ui, Value: hashWith(hs, 9, 9)}); err != nil {
					return err
				}
			}
			switch cl {
			case 1:
				return w.AddLog(&LogRecord{RefName: "a", UpdateIndex: ui, Time: uint64(10 + tt), New: hashWith(hs, byte(tt), 1), Old: hashWith(hs, 0, 0), Message: "m\n"})
			case 2:
				if ui > 1 {
					return w.AddLog(&LogRecord{RefName: "a", UpdateIndex: ui - 1})
				}
			}
			return nil
		}) == nil, "universe-add")
	}
}

func fullDump(dir string, cfg Config, label string) string {
	st, err := NewStack(dir, cfg)
	VerifAssert(err == nil, label+"-open")
	if err != nil {
		return "unopenable"
	}
	defer st.Close()
	m := st.Merged()
	s := ""
	for _, r := range scanAllRefs(m, label+"-scan") {
		s += r.RefName + "=" + string(r.Value) + "/" + string(r.TargetValue) + "/" + r.Target + ";"
	}
	s += "|"
	for _, l := range scanAllLogs(m, label+"-scan") {
		s += l.RefName + "@" + string([]byte{'0' + byte(l.UpdateIndex)}) + ":" + string(l.New) + l.Message + ";"
	}
	return s
}

// Harness_C07_stack: compaction through the real compactRange (list rewrite included) leaves the view unchanged.
// bounds: sequential on the (modelled) filesystem: stacks of 3 tables over refs a (absent/value/deletion), b (absent/symref), z (in the top table) and reflog entries / reflog deletions for a; every range [first,last]; the full ref and reflog dump of a fresh handle is compared before and after
// covers: done
func Harness_C07_stack() {
	cfg := stackCfg(0)
	dir := VerifTempDir()
	st := mustOpen(dir, cfg, "open")
	if st == nil {
		return
	}
	stackUniverse(st, 3)
	k := len(st.stack) // an empty transaction adds no table
	if k == 0 {
		return
	}
	before := fullDump(dir, cfg, "before")
	first := VerifIntRange(0, k-1)
	last := VerifIntRange(first, k-1)
	ok, err := st.compactRange(first, last, nil)
	VerifAssert(ok && err == nil, "compaction-failed")
	after := fullDump(dir, cfg, "after")
	VerifAssert(before == after, "compaction-changed-the-view")
	VerifCover("done")
}

// Harness_C07_concurrent: two compactions of disjoint ranges racing, with a table above both: the view is unchanged whichever commits first.
// bounds: 2 processes on a stack of 5 tables: compactRange(2,3) and compactRange(0,1); every schedule with <= 2 preemptions
// covers: done
func Harness_C07_concurrent() {
	cfg := stackCfg(0)
	dir := VerifTempDir()
	seedStack(dir, cfg, 5)
	VerifAs(1)
	h1 := mustOpen(dir, cfg, "open")
	VerifAs(2)
	h2 := mustOpen(dir, cfg, "open")
	VerifAs(0)
	if h1 == nil || h2 == nil {
		return
	}
	VerifSpawn(func() { h1.compactRange(2, 3, nil) })
	VerifSpawn(func() { h2.compactRange(0, 1, nil) })
	VerifRun(2)
	fin, err := NewStack(dir, cfg)
	VerifAssert(err == nil, "final-open")
	if err != nil {
		return
	}
	got := snapshot(fin, "final")
	VerifAssert(len(got.refs) == 6 && got.logs == 5 && got.refs["s"] == 4, "compaction-changed-the-view")
	for i := 0; i < 5; i++ {
		v, ok := got.refs["p"+string([]byte{'0' + byte(i)})]
		VerifAssert(ok && v == byte(i), "compaction-changed-the-view")
	}
	VerifCover("done")
}

// Harness_C13_stack: reflog expiry through CompactAll on the (modelled) filesystem, on multi-table and already compacted stacks, and again with the same configuration value after more tables were added.
// bounds: sequential: 3 additions (reflog entries for s at update indices 1..3, times 1..3), optionally compacted to one table first; CompactAll(cfg) with Time in {0,2}, MinUpdateIndex in {0,1,2}, MaxUpdateIndex in {0,2,3}; then one more addition and CompactAll with the same cfg pointer; the surviving entries are compared with the filter model after each run and the refs must not change
// covers: done
func Harness_C13_stack() {
	cfg := stackCfg(0)
	dir := VerifTempDir()
	st := mustOpen(dir, cfg, "open")
	if st == nil {
		return
	}
	for i := 0; i < 3; i++ {
		VerifAssert(addTxn(st, byte(i+1), true) == nil, "add")
	}
	if VerifChoose(2) == 1 {
		VerifAssert(st.CompactAll(nil) == nil, "pre-compaction")
	}
	exp := &LogExpirationConfig{Time: uint64([]int{0, 2}[VerifChoose(2)]), MinUpdateIndex: uint64(VerifChoose(3)), MaxUpdateIndex: uint64([]int{0, 2, 3}[VerifChoose(3)])}
	orig := *exp
	keep := func(idx, tm uint64) bool {
		return !(orig.Time > 0 && tm < orig.Time) && !(orig.MaxUpdateIndex != 0 && idx > orig.MaxUpdateIndex) && !(orig.MinUpdateIndex != 0 && idx < orig.MinUpdateIndex)
	}
	VerifAssert(st.CompactAll(exp) == nil, "expiry-compaction")
	want := 0
	for i := uint64(1); i <= 3; i++ {
		if keep(i, i) {
			want++
		}
	}
	fin := mustOpen(dir, cfg, "reopen")
	if fin == nil {
		return
	}
	got := snapshot(fin, "after-expiry")
	VerifAssert(got.logs == want, "expiry-wrong-entries")
	VerifAssert(len(got.refs) == 4 && got.refs["s"] == 3, "expiry-altered-refs")
	// second run with the same configuration value
	VerifAssert(addTxn(st, 4, true) == nil, "add-after-expiry")
	VerifAssert(st.CompactAll(exp) == nil, "second-expiry-compaction")
	want2 := 0
	for i := uint64(1); i <= 4; i++ {
		if keep(i, i) {
			want2++
		}
	}
	fin2 := mustOpen(dir, cfg, "reopen2")
	if fin2 == nil {
		return
	}
	got2 := snapshot(fin2, "after-second-expiry")
	VerifAssert(got2.logs == want2, "second-expiry-wrong-entries")
	VerifAssert(len(got2.refs) == 5 && got2.refs["s"] == 4, "expiry-altered-refs")
	VerifCover("done")
}

// Harness_C13_logsonly: expiry on a stack that holds no live ref (only reflog entries, optionally a ref and its tombstone): entries are removed even when all of them expire and nothing is left to write.
// bounds: sequential: 2 additions holding only a reflog entry each (update indices and times 1..2), optionally preceded by the creation and deletion of a ref; CompactAll(cfg) with Time in {0,2,3} and MinUpdateIndex in {0,2,3}; the surviving entries are counted by a fresh handle
// covers: all-expired, some-kept
func Harness_C13_logsonly() {
	cfg := stackCfg(0)
	dir := VerifTempDir()
	st := mustOpen(dir, cfg, "open")
	if st == nil {
		return
	}
	base := uint64(0)
	if VerifChoose(2) == 1 {
		for _, del := range []bool{false, true} {
			del := del
			VerifAssert(st.Add(func(w *Writer) error {
				ui := st.NextUpdateIndex()
				w.SetLimits(ui, ui)
				r := &RefRecord{RefName: "gone", UpdateIndex: ui}
				if !del {
					r.Value = hashWith(20, 3, 3)
				}
				return w.AddRef(r)
			}) == nil, "seed-gone")
		}
		base = 2
	}
	for i := uint64(1); i <= 2; i++ {
		i := i
		VerifAssert(st.Add(func(w *Writer) error {
			ui := st.NextUpdateIndex()
			w.SetLimits(ui, ui)
			return w.AddLog(&LogRecord{RefName: "s", UpdateIndex: ui, Time: i, New: hashWith(20, byte(i), 2), Old: hashWith(20, 0, 0), Message: "m\n"})
		}) == nil, "add-log")
	}
	exp := &LogExpirationConfig{Time: uint64([]int{0, 2, 3}[VerifChoose(3)]), MinUpdateIndex: uint64([]int{0, 2, 3}[VerifChoose(3)])}
	if exp.MinUpdateIndex != 0 {
		exp.MinUpdateIndex += base
	}
	orig := *exp
	VerifAssert(st.CompactAll(exp) == nil, "expiry-compaction")
	want := 0
	for i := uint64(1); i <= 2; i++ {
		if !(orig.Time > 0 && i < orig.Time) && !(orig.MinUpdateIndex != 0 && base+i < orig.MinUpdateIndex) {
			want++
		}
	}
	fin := mustOpen(dir, cfg, "reopen")
	if fin == nil {
		return
	}
	got := snapshot(fin, "after-expiry")
	VerifAssert(got.logs == want, "expiry-wrong-entries")
	VerifAssert(len(got.refs) == 0, "expiry-altered-refs")
	if want == 0 {
		VerifCover("all-expired")
	} else {
		VerifCover("some-kept")
	}
}

// Harness_C05_triples: three processes (a lock deleted by a non-owner lets a commit rename an empty or foreign lock file onto tables.list).
// bounds: 3 processes: CompactAll, open+Add, open+Add on a stack of 2 tables; every schedule with <= 3 preemptions
// covers: done
func Harness_C05_triples() {
	scenario([]int{opCompactAll, opOpenAdd, opOpenAdd}, 2, 0, 3, chkOpen|monList)
}

// ---------- C12: multi-record, multi-table transactions ----------

type txnRec struct {
	name string
	kind int // 1 value ref, 2 deletion, 3 symbolic ref
}

// specApplyTable applies one table of a transaction to a live set: deleted
// names leave, added names join; the table is legal when the result is
// conflict-free (the menu holds only valid names).
func specApplyTable(state []string, recs []txnRec) (post []string, ok bool) {
	for _, n := range state {
		gone := false
		for _, r := range recs {
			if r.name == n && r.kind == 2 {
				gone = true
			}
		}
		if !gone {
			post = append(post, n)
		}
	}
	for _, r := range recs {
		if r.kind == 2 {
			continue
		}
		found := false
		for _, n := range post {
			if n == r.name {
				found = true
			}
		}
		if !found {
			post = append(post, r.name)
		}
	}
	return post, !specNameConflicts(post)
}

// Harness_C12_txn: an Addition of two tables of several records each (value refs, symbolic refs, deletions; a later table may re-create what an earlier one deleted) is accepted exactly when every table leaves a conflict-free live set, and only then changes the committed state.
// bounds: sequential, name checking on; live set = any conflict-free subset of {a, a/b, a/c} (all value refs or all symbolic refs), committed by one Add; then one Addition of two tables: the first of 1..2 records (value ref or deletion), the second of 1..2 records (value ref, symbolic ref or deletion), names from the same menu in name order; when the first table alone conflicts but both together would not, either verdict is tolerated (the property does not say whether a transaction is judged table by table) and only the committed state is checked
// covers: accepted, rejected
func Harness_C12_txn() {
	cfg := stackCfg(0)
	dir := VerifTempDir()
	st := mustOpen(dir, cfg, "open")
	if st == nil {
		return
	}
	menu := []string{"a", "a/b", "a/c"}
	var live []string
	for _, n := range menu {
		if VerifChoose(2) == 1 {
			live = append(live, n)
		}
	}
	if specNameConflicts(live) {
		return
	}
	liveSym := VerifChoose(2) == 1
	mk := func(r txnRec, ui uint64, salt byte) *RefRecord {
		rec := &RefRecord{RefName: r.name, UpdateIndex: ui}
		switch r.kind {
		case 1:
			rec.Value = hashWith(20, salt, 7)
		case 3:
			rec.Target = "refs/target"
		}
		return rec
	}
	if len(live) > 0 {
		err := st.Add(func(w *Writer) error {
			ui := st.NextUpdateIndex()
			w.SetLimits(ui, ui)
			for _, n := range live {
				k := 1
				if liveSym {
					k = 3
				}
				if err := w.AddRef(mk(txnRec{n, k}, ui, 1)); err != nil {
					return err
				}
			}
			return nil
		})
		VerifAssert(err == nil, "first-add")
		if err != nil {
			return
		}
	}
	pick := func(kinds int) []txnRec {
		var recs []txnRec
		for _, n := range menu {
			if len(recs) < 2 {
				if k := VerifChoose(kinds + 1); k > 0 {
					recs = append(recs, txnRec{n, k})
				}
			}
		}
		return recs
	}
	t1, t2 := pick(2), pick(3)
	if len(t1) == 0 || len(t2) == 0 {
		return
	}
	s1, ok1 := specApplyTable(live, t1)
	s2, ok2 := specApplyTable(s1, t2)
	run := func() error {
		tr, err := st.NewAddition()
		if err != nil {
			return err
		}
		defer tr.Close()
		for i, recs := range [][]txnRec{t1, t2} {
			recs := recs
			ui := tr.nextUpdateIndex
			salt := byte(i + 2)
			if err := tr.Add(func(w *Writer) error {
				w.SetLimits(ui, ui)
				for _, r := range recs {
					if err := w.AddRef(mk(r, ui, salt)); err != nil {
						return err
					}
				}
				return nil
			}); err != nil {
				return err
			}
		}
		return tr.Commit()
	}
	err := run()
	definite := true
	want := ok1 && ok2
	if !ok1 && ok2 {
		definite = false // judged as a whole it would be legal, table by table it is not
	}
	if definite {
		if want {
			VerifAssert(err == nil, "legal-transaction-refused")
			VerifCover("accepted")
		} else {
			VerifAssert(err != nil, "conflicting-transaction-accepted")
			VerifCover("rejected")
		}
	}
	fin := mustOpen(dir, cfg, "final-open")
	if fin == nil {
		return
	}
	got := snapshot(fin, "final").refs
	var names []string
	for n := range got {
		names = append(names, n)
	}
	VerifAssert(!specNameConflicts(names), "live-refs-conflict")
	expect := live
	if err == nil {
		expect = s2
	}
	VerifAssert(len(names) == len(expect), "committed-live-set-size")
	for _, n := range expect {
		_, ok := got[n]
		VerifAssert(ok, "committed-live-set-member")
	}
}
