package main

import "sort"

// A cached model is a concrete assignment of the input variables known to
// satisfy the current path condition.  Evaluating a branch condition under it
// shows one side feasible without asking the solver (KLEE-style
// counterexample cache); the solver still decides the other side.

type modelT struct {
	vals map[*Term]uint64
	memo map[*Term]uint64
}

// eval computes t under the model; ok=false when t contains an uninterpreted
// function (or an undefined division) the model cannot evaluate.
func (md *modelT) eval(t *Term) (uint64, bool) {
	switch t.op {
	case opConst:
		return t.val, true
	case opTrue:
		return 1, true
	case opFalse:
		return 0, true
	case opVar:
		v, ok := md.vals[t]
		if !ok {
			// absent: unconstrained when the model was taken; 0 extends it, and
			// the extension is recorded so that the vector built from this model
			// uses the same value (an unrecorded variable is filled from the seed)
			md.vals[t] = 0
		}
		return v, true
	}
	if v, ok := md.memo[t]; ok {
		return v, true
	}
	var r uint64
	switch t.op {
	case opNot:
		a, ok := md.eval(t.args[0])
		if !ok {
			return 0, false
		}
		r = a ^ 1
	case opAnd, opOr:
		a, ok := md.eval(t.args[0])
		if !ok {
			return 0, false
		}
		if (t.op == opAnd && a == 0) || (t.op == opOr && a == 1) {
			r = a
			break
		}
		b, ok := md.eval(t.args[1])
		if !ok {
			return 0, false
		}
		r = b
	case opIte:
		c, ok := md.eval(t.args[0])
		if !ok {
			return 0, false
		}
		var ok2 bool
		if c == 1 {
			r, ok2 = md.eval(t.args[1])
		} else {
			r, ok2 = md.eval(t.args[2])
		}
		if !ok2 {
			return 0, false
		}
	case opEq, opUlt, opUle, opSlt, opSle:
		a, ok := md.eval(t.args[0])
		if !ok {
			return 0, false
		}
		b, ok := md.eval(t.args[1])
		if !ok {
			return 0, false
		}
		w := t.args[0].w
		if w == 0 {
			w = 1
		}
		if cmpConst(t.op, w, a, b) {
			r = 1
		}
	case opExtract:
		a, ok := md.eval(t.args[0])
		if !ok {
			return 0, false
		}
		r = (a >> uint(t.b)) & mask(t.w)
	case opZext:
		a, ok := md.eval(t.args[0])
		if !ok {
			return 0, false
		}
		r = a
	case opSext:
		a, ok := md.eval(t.args[0])
		if !ok {
			return 0, false
		}
		r = uint64(sext64(a, t.args[0].w)) & mask(t.w)
	case opConcat:
		a, ok := md.eval(t.args[0])
		if !ok {
			return 0, false
		}
		b, ok := md.eval(t.args[1])
		if !ok {
			return 0, false
		}
		if t.w > 64 {
			return 0, false
		}
		r = (a<<uint(t.args[1].w) | b) & mask(t.w)
	case opUF:
		return 0, false
	default:
		a, ok := md.eval(t.args[0])
		if !ok {
			return 0, false
		}
		b, ok := md.eval(t.args[1])
		if !ok {
			return 0, false
		}
		if t.w > 64 {
			return 0, false
		}
		v, ok := foldBin(t.op, t.w, a, b)
		if !ok {
			return 0, false
		}
		r = v
	}
	md.memo[t] = r
	return r, true
}

func (m *Machine) inputVars() []*Term {
	vs := make([]*Term, 0, len(m.inputs))
	for _, in := range m.inputs {
		if in.t != nil {
			vs = append(vs, in.t)
		}
	}
	return vs
}

func (m *Machine) addModel(md *modelT) {
	if md == nil {
		return
	}
	if len(m.models) >= 4 {
		m.models = m.models[1:]
	}
	m.models = append(m.models, md)
}

// filterModels keeps the cached models that satisfy the new assumption.
func (m *Machine) filterModels(c *Term) {
	k := 0
	for _, md := range m.models {
		if v, ok := md.eval(c); ok && v == 1 {
			m.models[k] = md
			k++
		}
	}
	m.models = m.models[:k]
}

// sides reports which outcomes of c the cached models witness.
func (m *Machine) sides(c *Term) (canTrue, canFalse bool) {
	for _, md := range m.models {
		if v, ok := md.eval(c); ok {
			if v == 1 {
				canTrue = true
			} else {
				canFalse = true
			}
		}
	}
	return
}

type qcacheEntry struct {
	res  string
	vals map[*Term]uint64 // slice model for sat answers
}

func queryKey(lits []*Term) string {
	ids := make([]int, len(lits))
	for i, l := range lits {
		ids[i] = l.id
	}
	sort.Ints(ids)
	b := make([]byte, 0, 4*len(ids))
	last := -1
	for _, id := range ids {
		if id == last {
			continue
		}
		last = id
		b = append(b, byte(id), byte(id>>8), byte(id>>16), byte(id>>24))
	}
	return string(b)
}

// query decides satisfiability of (slice of pc) ∧ extra.  Answers are cached
// per worker keyed by the exact literal set: sibling paths repeat most of
// their queries on identical slices.  For sat it returns the slice's model.
func (m *Machine) query(extra []*Term, about ...*Term) (string, map[*Term]uint64, map[*Term]bool) {
	lits, groups := m.pcSlice(extra, about...)
	all := append(lits, extra...)
	key := queryKey(all)
	if e, ok := m.w.qcache[key]; ok {
		m.w.qhits++
		return e.res, e.vals, groups
	}
	r := m.sol.Check(all...)
	if r == "unknown" {
		panic(pathAbort{"unknown: solver answered unknown (" + m.sol.lastErr + ")"})
	}
	var vals map[*Term]uint64
	if r == "sat" {
		var vs []*Term
		seen := map[*Term]bool{}
		for _, l := range all {
			for _, v := range varsOf(l) {
				if !seen[v] {
					seen[v] = true
					vs = append(vs, v)
				}
			}
		}
		var ok bool
		vals, ok = m.sol.Model(vs)
		if !ok {
			panic(pathAbort{"unknown: cannot read model"})
		}
	}
	m.w.qcache[key] = qcacheEntry{r, vals}
	return r, vals, groups
}

// extend turns a slice model into a model of the whole path condition by
// keeping a cached full model's values outside the slice's classes.
func (m *Machine) extend(vals map[*Term]uint64, groups map[*Term]bool, extra []*Term) *modelT {
	out := make(map[*Term]uint64, len(vals))
	for v, x := range vals {
		out[v] = x
	}
	if len(m.models) > 0 {
		base := m.models[len(m.models)-1]
		for v, x := range base.vals {
			if !groups[m.find(v)] {
				out[v] = x
			}
		}
		return &modelT{vals: out, memo: map[*Term]uint64{}}
	}
	// no base model: anything outside the slice?
	var rest []*Term
	for _, l := range m.pcList {
		vs := varsOf(l)
		if len(vs) > 0 && !groups[m.find(vs[0])] {
			rest = append(rest, l)
		}
	}
	if len(rest) > 0 {
		key := queryKey(rest)
		e, ok := m.w.qcache[key]
		if !ok {
			r := m.sol.Check(rest...)
			if r != "sat" {
				return nil
			}
			var vs []*Term
			seen := map[*Term]bool{}
			for _, l := range rest {
				for _, v := range varsOf(l) {
					if !seen[v] {
						seen[v] = true
						vs = append(vs, v)
					}
				}
			}
			rv, ok2 := m.sol.Model(vs)
			if !ok2 {
				return nil
			}
			e = qcacheEntry{"sat", rv}
			m.w.qcache[key] = e
		}
		if e.res != "sat" {
			return nil
		}
		for v, x := range e.vals {
			out[v] = x
		}
	}
	return &modelT{vals: out, memo: map[*Term]uint64{}}
}

// feasible decides satisfiability of pc ∧ c, using and feeding the model cache.
func (m *Machine) feasible(c *Term) bool {
	if t, _ := m.sides(c); t {
		m.cacheHits++
		return true
	}
	extra := []*Term{c}
	r, vals, groups := m.query(extra)
	if r == "sat" {
		m.addModel(m.extend(vals, groups, extra))
		return true
	}
	return false
}

// fullModel returns a model of the whole path condition (nil if none can be
// obtained).
func (m *Machine) fullModel() *modelT {
	if len(m.models) > 0 {
		return m.models[len(m.models)-1]
	}
	md := m.extend(nil, map[*Term]bool{}, nil)
	m.addModel(md)
	return md
}
