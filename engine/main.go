package main

import (
	"encoding/json"
	"flag"
	"fmt"
	"os"
	"path/filepath"
	"regexp"
	"runtime/pprof"
	"sort"
	"strconv"
	"strings"
	"time"
)

type ReplayFile struct {
	Property string    `json:"property"`
	Harness  string    `json:"harness"`
	Tier     int       `json:"tier"`
	Violation Violation `json:"violation"`
	Native   *replayResult `json:"native_result,omitempty"`
	Confirmed bool     `json:"confirmed"`
}

func usage() {
	fmt.Fprintln(os.Stderr, "usage: symgo check -prop C01 [-tier quick|thorough] | symgo run -harness Name | symgo replay <file>")
	os.Exit(2)
}

func envInt(name string, def int64) int64 {
	if v := os.Getenv(name); v != "" {
		if n, err := strconv.ParseInt(v, 10, 64); err == nil {
			return n
		}
	}
	return def
}

func main() {
	if len(os.Args) < 2 {
		usage()
	}
	cmd := os.Args[1]
	fl := flag.NewFlagSet(cmd, flag.ExitOnError)
	prop := fl.String("prop", "", "property id")
	tierS := fl.String("tier", os.Getenv("VERIF_TIER"), "quick|thorough")
	repo := fl.String("repo", envStr("VERIF_REPO", "/repo"), "repository working tree")
	verif := fl.String("verif", envStr("VERIF_DIR", "/verif"), "verif directory")
	harness := fl.String("harness", "", "harness function (run)")
	workers := fl.Int("workers", 16, "parallel workers")
	solver := fl.String("solver", "z3", "z3|z3-new|cvc5")
	maxPaths := fl.Int64("maxpaths", 0, "stop after this many paths (inconclusive)")
	timeout := fl.Duration("timeout", 0, "exploration deadline per harness (inconclusive when hit)")
	noNative := fl.Bool("nonative", false, "skip native replay (development only; never exits 0/1 with it)")
	verbose := fl.Bool("v", false, "verbose")
	cpuprof := fl.String("cpuprofile", "", "write cpu profile")
	fl.Parse(os.Args[2:])
	if *cpuprof != "" {
		f, _ := os.Create(*cpuprof)
		pprof.StartCPUProfile(f)
		defer pprof.StopCPUProfile()
	}
	tier := 0
	if *tierS == "thorough" {
		tier = 1
	}
	seed := envInt("VERIF_SEED", 1)

	switch cmd {
	case "replay":
		if fl.NArg() < 1 {
			usage()
		}
		os.Exit(doReplay(*repo, *verif, fl.Arg(0)))
	case "check", "run":
	default:
		usage()
	}

	t0 := time.Now()
	harnessDir := filepath.Join(*verif, "harness")
	files, registry, names, err := harnessFiles(harnessDir, *repo)
	if err != nil {
		fmt.Println("INCONCLUSIVE: cannot read harness dir:", err)
		os.Exit(2)
	}
	overlay := map[string][]byte{}
	for v, real := range files {
		b, _ := os.ReadFile(real)
		overlay[v] = b
	}
	overlay[filepath.Join(*repo, "zz_verif_registry.go")] = registry
	eng, err := loadEngine(*repo, overlay)
	dropped := map[string]bool{}
	if err != nil {
		// drop harness files that no longer type-check against this tree and retry once
		re := regexp.MustCompile(`(zz_verif_[A-Za-z0-9_]+\.go)`)
		for _, mt := range re.FindAllStringSubmatch(err.Error(), -1) {
			p := filepath.Join(*repo, mt[1])
			if !strings.HasSuffix(mt[1], "verif_api.go") && !strings.HasSuffix(mt[1], "registry.go") {
				dropped[p] = true
			}
		}
		if len(dropped) == 0 {
			fmt.Println("INCONCLUSIVE: cannot load /repo with the harness overlay:\n" + err.Error())
			os.Exit(2)
		}
		fmt.Fprintln(os.Stderr, "note: harness files that do not type-check against this tree are skipped:\n"+err.Error())
		var keep []string
		for v := range overlay {
			if dropped[v] {
				delete(overlay, v)
			}
		}
		for v, real := range files {
			if dropped[v] {
				continue
			}
			b, _ := os.ReadFile(real)
			for _, mt := range harnessFuncRe.FindAllSubmatch(b, -1) {
				keep = append(keep, string(mt[1]))
			}
		}
		sort.Strings(keep)
		var sb strings.Builder
		sb.WriteString("//go:build verif\n\npackage reftable\n\nvar verifHarnesses = map[string]func(){\n")
		for _, n := range keep {
			fmt.Fprintf(&sb, "\t%q: %s,\n", n, n)
		}
		sb.WriteString("}\n")
		overlay[filepath.Join(*repo, "zz_verif_registry.go")] = []byte(sb.String())
		names = keep
		var err2 error
		eng, err2 = loadEngine(*repo, overlay)
		if err2 != nil {
			fmt.Println("INCONCLUSIVE: cannot load /repo with the harness overlay:\n" + err.Error() + "\nafter dropping files:\n" + err2.Error())
			os.Exit(2)
		}
	}
	eng.verifDir = *verif
	eng.tier, eng.seed, eng.workers, eng.solver, eng.maxPaths = tier, seed, *workers, *solver, *maxPaths
	if *verbose {
		fmt.Printf("loaded %s + harness overlay in %s\n", *repo, fmtDur(eng.loadTime))
	}

	var todo []string
	if cmd == "run" {
		todo = strings.Split(*harness, ",")
	} else {
		if *prop == "" {
			usage()
		}
		for _, n := range names {
			if strings.HasPrefix(n, "Harness_"+*prop+"_") {
				if tier == 0 && strings.HasSuffix(n, "_thorough") {
					continue
				}
				todo = append(todo, n)
			}
		}
	}
	var skipped []string
	for d := range dropped {
		skipped = append(skipped, filepath.Base(d))
	}
	sort.Strings(skipped)
	if len(todo) == 0 {
		fmt.Printf("INCONCLUSIVE: no harness available for %s (harness files dropped: %v)\n", *prop, skipped)
		os.Exit(2)
	}

	var runs []*HarnessRun
	for _, n := range todo {
		fn := eng.pkg.Func(n)
		if fn == nil {
			fmt.Println("INCONCLUSIVE: no such harness", n)
			os.Exit(2)
		}
		h := newHarnessRun(n, fn)
		if *timeout > 0 {
			eng.deadline = time.Now().Add(*timeout)
		}
		eng.explore(h)
		runs = append(runs, h)
		if *verbose || cmd == "run" {
			fmt.Printf("== %s: paths=%d complete=%d infeasible=%d viol=%d cuts=%d decisions=%d queries sat=%d unsat=%d unknown=%d cached=%d solver=%s wall=%s funcs=%d\n",
				n, h.paths, h.completed, h.infeasible, h.violPaths, h.cuts, h.decisions, h.sat, h.unsat, h.unknown, h.qhits, fmtDur(h.solverTime), fmtDur(h.wall), len(h.funcs))
			fmt.Printf("   covers=%v\n", h.covers)
			for r, c := range h.cutReasons {
				fmt.Printf("   CUT x%d: %s\n", c, r)
			}
			for nn, c := range h.notes {
				fmt.Printf("   note x%d: %s\n", c, nn)
			}
			if h.engineErr != "" {
				fmt.Println("   ENGINE:", h.engineErr)
			}
			if h.truncated {
				fmt.Println("   TRUNCATED: exploration stopped by maxpaths/timeout (inconclusive)")
			}
			seen := map[string]int{}
			for i := range h.viols {
				v := &h.viols[i]
				s := v.signature(n)
				seen[s]++
				if seen[s] == 1 {
					fmt.Printf("   VIOL %s pos=%s fn=%s msg=%s vec=%v\n", s, v.Pos, v.Fn, v.Msg, v.Vector)
					if *verbose && len(v.Trace) > 0 {
						fmt.Println("      trace: " + strings.Join(v.Trace, " | "))
					}
				}
			}
			for s, c := range seen {
				if c > 1 {
					fmt.Printf("   (x%d %s)\n", c, s)
				}
			}
		}
	}
	if cmd == "run" && *noNative {
		pprof.StopCPUProfile()
		return
	}
	code := finish(eng, *prop, *verif, harnessDir, runs, skipped, dropped, t0, *noNative, cmd == "run")
	os.Exit(code)
}

func envStr(name, def string) string {
	if v := os.Getenv(name); v != "" {
		return v
	}
	return def
}

var sanitizeRe = regexp.MustCompile(`[^A-Za-z0-9_.-]+`)

// finish confirms violations natively, cross-checks sampled paths, applies
// the known-findings list, writes evidence and returns the exit code.
func finish(eng *Engine, prop, verifDir, harnessDir string, runs []*HarnessRun, skipped []string, dropped map[string]bool, t0 time.Time, noNative, devRun bool) int {
	findings := loadFindings(filepath.Join(verifDir, "known_findings.json"))
	tierName := "quick"
	if eng.tier > 0 {
		tierName = "thorough"
	}
	// one representative per signature
	type cand struct {
		h   *HarnessRun
		v   *Violation
		sig string
		n   int
	}
	var cands []*cand
	bySig := map[string]*cand{}
	for _, h := range runs {
		for i := range h.viols {
			v := &h.viols[i]
			s := v.signature(h.name)
			if c, ok := bySig[s]; ok {
				c.n++
				continue
			}
			c := &cand{h: h, v: v, sig: s, n: 1}
			bySig[s] = c
			cands = append(cands, c)
		}
	}
	var cases []replayCase
	for _, c := range cands {
		cases = append(cases, replayCase{Harness: c.h.name, Vector: c.v.Vector, Tier: eng.tier})
	}
	nViolCases := len(cases)
	for _, h := range runs {
		for _, x := range h.xcheck {
			x.Tier = eng.tier
			cases = append(cases, x)
		}
	}
	var results []replayResult
	var replayErr error
	var nativeWall time.Duration
	if !noNative && len(cases) > 0 {
		tn := time.Now()
		results, _, replayErr = nativeReplay(eng.repoDir, harnessDir, cases, dropped)
		nativeWall = time.Since(tn)
	}
	inconclusive := []string{}
	if replayErr != nil {
		inconclusive = append(inconclusive, "native replay failed: "+replayErr.Error())
	}
	// cross-check
	xAgreed := 0
	hev := map[string]*HarnessEvidence{}
	var hevList []*HarnessEvidence
	for _, h := range runs {
		ev := h.evidence(eng)
		hev[h.name] = &ev
		hevList = append(hevList, &ev)
	}
	if results != nil {
		for i := nViolCases; i < len(cases); i++ {
			c, r := cases[i], results[i]
			ok := r.Outcome == "complete" && sameStrings(r.Covers, c.ExpectCovers) && sameStrings(r.Observes, c.ExpectObserves)
			if ok {
				xAgreed++
				hev[c.Harness].XChecked++
			} else {
				msg := fmt.Sprintf("vector %v: engine complete covers=%v observes=%v; native %s label=%s pos=%s covers=%v observes=%v msg=%s",
					c.Vector, c.ExpectCovers, c.ExpectObserves, r.Outcome, r.Label, r.Pos, r.Covers, r.Observes, r.Msg)
				hev[c.Harness].XFailed = append(hev[c.Harness].XFailed, msg)
				inconclusive = append(inconclusive, "engine/native disagreement in "+c.Harness+": "+msg)
			}
		}
	}
	// violations
	exit := 0
	var knownSeen []string
	nViol := 0
	replayDir := filepath.Join(envStr("VERIF_REPLAY_DIR", filepath.Join(verifDir, "replays")), prop)
	for i, c := range cands {
		rf := ReplayFile{Property: prop, Harness: c.h.name, Tier: eng.tier, Violation: *c.v}
		if results != nil {
			r := results[i]
			rf.Native = &r
			rf.Confirmed = confirms(c.v, &r)
		}
		if !rf.Confirmed {
			if noNative {
				continue
			}
			inconclusive = append(inconclusive, fmt.Sprintf("UNCONFIRMED counterexample %s (x%d): engine says %s %s at %s; native run: %+v", c.sig, c.n, c.v.Kind, c.v.Label, c.v.Pos, rf.Native))
			continue
		}
		if f := matchFinding(findings, prop, c.h.name, c.v); f != nil {
			line := fmt.Sprintf("KNOWN-FINDING: property=%s %s [%s]", prop, f.What, c.sig)
			fmt.Println(line)
			knownSeen = append(knownSeen, c.sig)
			continue
		}
		nViol++
		os.MkdirAll(replayDir, 0o755)
		path := filepath.Join(replayDir, sanitizeRe.ReplaceAllString(c.sig, "_")+".json")
		writeJSON(path, rf)
		fmt.Printf("VIOLATION property=%s replay=%s\n", prop, path)
		fmt.Printf("  %s %s fn=%s pos=%s msg=%s (paths with this signature: %d)\n", c.v.Kind, c.v.Label, c.v.Fn, c.v.Pos, c.v.Msg, c.n)
		if len(c.v.Trace) > 0 {
			fmt.Println("  trace: " + strings.Join(c.v.Trace, " | "))
		}
		exit = 1
	}
	// inconclusive conditions
	var states, transitions, nontrivial, obligations int64
	var sat, unsat, unknown int
	var solverTime time.Duration
	for _, h := range runs {
		states += h.completed
		transitions += h.decisions
		nontrivial += h.nontrivial
		obligations += h.nObligations
		sat += h.sat
		unsat += h.unsat
		unknown += h.unknown
		solverTime += h.solverTime
		if h.engineErr != "" {
			inconclusive = append(inconclusive, h.name+": "+h.engineErr)
		}
		if h.cuts > 0 {
			inconclusive = append(inconclusive, fmt.Sprintf("%s: %d paths cut: %v", h.name, h.cuts, h.cutReasons))
		}
		if h.truncated {
			inconclusive = append(inconclusive, h.name+": exploration stopped by a budget (maxpaths/timeout)")
		}
		if h.unknown > 0 || h.solverErrs > 0 {
			inconclusive = append(inconclusive, fmt.Sprintf("%s: %d unknown / %d error solver answers", h.name, h.unknown, h.solverErrs))
		}
		if h.completed == 0 && len(h.viols) == 0 && h.engineErr == "" {
			inconclusive = append(inconclusive, h.name+": vacuous (no path completed)")
		}
		// reachability witnesses named in the harness doc ("covers: a, b")
		if len(h.viols) == 0 {
			for _, want := range docList(eng.harnessDocs[h.name], "covers:") {
				if h.covers[want] == 0 {
					inconclusive = append(inconclusive, h.name+": reachability witness '"+want+"' not reached (vacuity guard)")
				}
			}
		}
	}
	if exit == 0 && len(inconclusive) > 0 {
		exit = 2
	}
	// evidence
	var samples []interface{}
	var assumptions []string
	assumptions = append(assumptions, stubAssumptions...)
	usesFS, usesC := false, false
	for _, h := range runs {
		for _, s := range h.samples {
			if len(samples) < 12 {
				samples = append(samples, s)
			}
		}
		for f := range h.funcs {
			if strings.Contains(f, "Stack") {
				usesFS = true
			}
			if strings.HasPrefix(f, "C:") {
				usesC = true
			}
		}
		for _, a := range docList(eng.harnessDocs[h.name], "assumes:") {
			assumptions = append(assumptions, h.name+": "+a)
		}
	}
	if usesFS {
		assumptions = append(assumptions, fsAssumptions...)
	}
	if usesC {
		assumptions = append(assumptions, cAssumptions...)
	}
	if len(samples) == 0 {
		samples = append(samples, map[string]string{"note": "no complete path"})
	}
	var bounds []string
	for _, h := range runs {
		for _, b := range docList(eng.harnessDocs[h.name], "bounds:") {
			bounds = append(bounds, h.name+": "+b)
		}
	}
	witnesses := map[string][]int64{}
	for _, h := range runs {
		for l, v := range h.coverVec {
			witnesses[h.name+"/"+l] = v
		}
	}
	cov := map[string]interface{}{
		"states":                        states,
		"transitions":                   transitions,
		"traces_validated_against_impl": xAgreed,
		"samples":                       samples,
		"evaluations":                   states,
		"distinct_nontrivial":           nontrivial,
		"rule":                          "states = feasible symbolic paths of the real code executed to completion (each covers all values of its symbolic inputs satisfying its path condition); transitions = symbolic decisions (branch outcomes, enumerated concretisations, schedule/crash choices); a path is non-trivial when it made at least one symbolic decision or read a symbolic input; paths are distinct by construction (distinct decision vectors)",
		"exhaustive":                    exit == 0 || exit == 1,
		"explanation":                   "bounded symbolic execution of go/ssa of /repo's working tree into SMT (bit-vectors + UF), path-forking, all paths within the harness bounds",
		"functions_encoded":             sortedFuncs(runs),
		"bounds":                        bounds,
		"harnesses":                     hevList,
		"queries":                       map[string]int{"sat": sat, "unsat": unsat, "unknown": unknown},
		"assert_queries":                obligations,
		"solver":                        eng.solver,
		"solver_time_s":                 solverTime.Seconds(),
		"native_replay_wall_s":          nativeWall.Seconds(),
		"load_and_ssa_build_s":          eng.loadTime.Seconds(),
		"cut_paths":                     sumCuts(runs),
		"witnesses":                     witnesses,
		"skipped_harness_files":         skipped,
		"known_findings_seen":           knownSeen,
		"inconclusive_reasons":          inconclusive,
		"outside_bounds":                "nothing is claimed for inputs, configurations, schedules or sizes outside the bounds listed per harness",
	}
	ev := Evidence{PropertyID: prop, Tier: tierName, Seed: eng.seed, Level: "model_checking", Coverage: cov, Assumptions: assumptions,
		WallS: time.Since(t0).Seconds(), Violations: nViol}
	if !devRun {
		if err := writeJSON(filepath.Join(envStr("VERIF_EVIDENCE_DIR", filepath.Join(verifDir, "evidence")), prop+".json"), ev); err != nil {
			fmt.Println("cannot write evidence:", err)
			if exit == 0 {
				exit = 2
			}
		}
	}
	for _, r := range inconclusive {
		fmt.Println("INCONCLUSIVE:", r)
	}
	fmt.Printf("%s %s: harnesses=%d paths=%d decisions=%d queries=%d/%d/%d (sat/unsat/unknown) solver=%s native-crosschecks=%d violations=%d known=%d wall=%s exit=%d\n",
		prop, tierName, len(runs), states, transitions, sat, unsat, unknown, fmtDur(solverTime), xAgreed, nViol, len(knownSeen), fmtDur(time.Since(t0)), exit)
	return exit
}

func sumCuts(runs []*HarnessRun) int64 {
	var n int64
	for _, h := range runs {
		n += h.cuts
	}
	return n
}

// docList extracts "key: a; b; c" items from a harness doc comment (items are
// separated by ';', the list may continue over indented lines).
func docList(doc, key string) []string {
	var out []string
	lines := strings.Split(doc, "\n")
	for i := 0; i < len(lines); i++ {
		l := strings.TrimSpace(lines[i])
		if !strings.HasPrefix(l, key) {
			continue
		}
		text := strings.TrimSpace(l[len(key):])
		for i+1 < len(lines) && strings.HasPrefix(lines[i+1], "  ") {
			i++
			text += " " + strings.TrimSpace(lines[i])
		}
		sep := ";"
		if key == "covers:" {
			sep = ","
		}
		for _, it := range strings.Split(text, sep) {
			if it = strings.TrimSpace(it); it != "" {
				out = append(out, it)
			}
		}
	}
	return out
}

func doReplay(repo, verifDir, path string) int {
	b, err := os.ReadFile(path)
	if err != nil {
		fmt.Println(err)
		return 2
	}
	var rf ReplayFile
	if err := json.Unmarshal(b, &rf); err != nil {
		fmt.Println(err)
		return 2
	}
	res, log, err := nativeReplay(repo, filepath.Join(verifDir, "harness"), []replayCase{{Harness: rf.Harness, Vector: rf.Violation.Vector, Tier: rf.Tier}}, nil)
	if err != nil {
		fmt.Println("replay failed:", err)
		fmt.Println(tail(log, 30))
		return 2
	}
	r := res[0]
	jb, _ := json.MarshalIndent(r, "", " ")
	fmt.Println(string(jb))
	if confirms(&rf.Violation, &r) {
		fmt.Printf("VIOLATION property=%s replay=%s\n", rf.Property, path)
		return 1
	}
	fmt.Println("not reproduced on this tree")
	return 0
}
