package main

import (
	"bufio"
	"fmt"
	"io"
	"os"
	"os/exec"
	"strconv"
	"strings"
	"time"
)

// Solver is one long-lived SMT solver process (z3 -in by default).  Shared
// sub-terms are emitted once as define-fun so formulas stay linear; the
// definitions are tracked per push/pop scope so that a pop forgets them.
type Solver struct {
	cmd    *exec.Cmd
	in     *bufio.Writer
	inC    io.WriteCloser
	out    *bufio.Reader
	kind   string
	level  int
	scopes [][]*Term         // terms defined per scope
	ufs    [][]string        // UFs declared per scope
	emit   map[*Term]bool
	ufDecl map[string]bool
	// stats
	nSat, nUnsat, nUnknown, nErr int
	dur                          time.Duration
	log                          io.Writer
	lastErr                      string
}

var slowLog = os.Getenv("VERIF_SLOWLOG")

// per-query solver time limit; a query that hits it answers unknown, which
// makes the run inconclusive (never a pass)
var queryTimeoutMS = func() int {
	if v, err := strconv.Atoi(os.Getenv("VERIF_QUERY_TIMEOUT_MS")); err == nil && v > 0 {
		return v
	}
	return 60000
}()

func solverCommand(kind string) (string, []string) {
	switch kind {
	case "cvc5":
		return "cvc5", []string{"--incremental", "--lang", "smt2", "--produce-models", fmt.Sprintf("--tlimit-per=%d", queryTimeoutMS)}
	case "z3-new":
		return "z3-new", []string{"-in"}
	}
	return "z3", []string{"-in"}
}

func NewSolver(kind string, seed int) *Solver {
	bin, args := solverCommand(kind)
	cmd := exec.Command(bin, args...)
	in, _ := cmd.StdinPipe()
	outp, _ := cmd.StdoutPipe()
	cmd.Stderr = cmd.Stdout
	if err := cmd.Start(); err != nil {
		panic("cannot start solver " + bin + ": " + err.Error())
	}
	s := &Solver{cmd: cmd, inC: in, in: bufio.NewWriterSize(in, 1<<16), out: bufio.NewReaderSize(outp, 1<<16),
		kind: kind, emit: map[*Term]bool{}, ufDecl: map[string]bool{}, scopes: [][]*Term{nil}, ufs: [][]string{nil}}
	if kind != "cvc5" {
		s.send("(set-option :produce-models true)")
		s.send(fmt.Sprintf("(set-option :timeout %d)", queryTimeoutMS))
		if seed != 0 {
			s.send(fmt.Sprintf("(set-option :smt.random_seed %d)", seed%100000))
			s.send(fmt.Sprintf("(set-option :sat.random_seed %d)", seed%100000))
		}
	}
	return s
}

func (s *Solver) send(str string) {
	if s.log != nil {
		fmt.Fprintln(s.log, str)
	}
	s.in.WriteString(str)
	s.in.WriteByte('\n')
}

// ResetAll returns the solver to an empty state (all scopes dropped).
func (s *Solver) ResetAll() {
	s.send("(reset)")
	if s.kind != "cvc5" {
		s.send("(set-option :produce-models true)")
		s.send(fmt.Sprintf("(set-option :timeout %d)", queryTimeoutMS))
	}
	s.level = 0
	s.scopes = [][]*Term{nil}
	s.ufs = [][]string{nil}
	s.emit = map[*Term]bool{}
	s.ufDecl = map[string]bool{}
}

func (s *Solver) Push() {
	s.send("(push 1)")
	s.level++
	s.scopes = append(s.scopes, nil)
	s.ufs = append(s.ufs, nil)
}

func (s *Solver) PopTo(level int) {
	if level >= s.level {
		return
	}
	s.send("(pop " + strconv.Itoa(s.level-level) + ")")
	for s.level > level {
		for _, t := range s.scopes[s.level] {
			delete(s.emit, t)
		}
		for _, u := range s.ufs[s.level] {
			delete(s.ufDecl, u)
		}
		s.scopes = s.scopes[:s.level]
		s.ufs = s.ufs[:s.level]
		s.level--
	}
}

func (s *Solver) Pop() { s.PopTo(s.level - 1) }

func (s *Solver) mark(t *Term) {
	s.emit[t] = true
	s.scopes[s.level] = append(s.scopes[s.level], t)
}

// ref makes sure t is defined in the session and returns its name.
func (s *Solver) ref(t *Term) string {
	switch t.op {
	case opConst:
		return "(_ bv" + strconv.FormatUint(t.val, 10) + " " + strconv.Itoa(t.w) + ")"
	case opTrue:
		return "true"
	case opFalse:
		return "false"
	case opVar:
		if !s.emit[t] {
			s.mark(t)
			s.send("(declare-const " + t.name + " " + sortOf(t) + ")")
		}
		return t.name
	}
	name := "t!" + strconv.Itoa(t.id)
	if s.emit[t] {
		return name
	}
	parts := make([]string, len(t.args))
	for i, a := range t.args {
		parts[i] = s.ref(a)
	}
	var body string
	switch t.op {
	case opExtract:
		body = "((_ extract " + strconv.Itoa(t.a) + " " + strconv.Itoa(t.b) + ") " + parts[0] + ")"
	case opZext:
		body = "((_ zero_extend " + strconv.Itoa(t.a) + ") " + parts[0] + ")"
	case opSext:
		body = "((_ sign_extend " + strconv.Itoa(t.a) + ") " + parts[0] + ")"
	case opUF:
		if !s.ufDecl[t.name] {
			s.ufDecl[t.name] = true
			s.ufs[s.level] = append(s.ufs[s.level], t.name)
			sorts := make([]string, len(t.args))
			for i, a := range t.args {
				sorts[i] = sortOf(a)
			}
			s.send("(declare-fun " + t.name + " (" + strings.Join(sorts, " ") + ") " + sortOf(t) + ")")
		}
		body = "(" + t.name + " " + strings.Join(parts, " ") + ")"
	default:
		body = "(" + opName[t.op] + " " + strings.Join(parts, " ") + ")"
	}
	s.mark(t)
	s.send("(define-fun " + name + " () " + sortOf(t) + " " + body + ")")
	return name
}

func (s *Solver) Assert(t *Term) {
	if t.op == opTrue {
		return
	}
	s.send("(assert " + s.ref(t) + ")")
}

func (s *Solver) readLine() string {
	s.in.Flush()
	l, err := s.out.ReadString('\n')
	if err != nil {
		panic("solver died: " + err.Error() + " last=" + s.lastErr)
	}
	return strings.TrimSpace(l)
}

// sync reads solver output up to an echoed marker and returns the lines before
// it.  Any "(error" line is remembered: it makes the pending answer inconclusive.
func (s *Solver) sync() (lines []string, sawErr bool) {
	s.send("(echo \"<<done>>\")")
	for {
		l := s.readLine()
		if strings.Contains(l, "<<done>>") {
			return
		}
		if strings.HasPrefix(l, "(error") {
			sawErr = true
			s.nErr++
			s.lastErr = l
		}
		if l != "" {
			lines = append(lines, l)
		}
	}
}

// Check returns "sat", "unsat" or "unknown" for the current assertions plus the
// extra literals.
func (s *Solver) Check(extra ...*Term) string {
	t0 := time.Now()
	if len(extra) == 0 {
		s.send("(check-sat)")
	} else {
		names := make([]string, len(extra))
		for i, e := range extra {
			names[i] = s.ref(e)
		}
		s.send("(check-sat-assuming (" + strings.Join(names, " ") + "))")
	}
	lines, sawErr := s.sync()
	if slowLog != "" {
		if d := time.Since(t0); d > 10*time.Millisecond {
			f, _ := os.OpenFile(slowLog, os.O_CREATE|os.O_APPEND|os.O_WRONLY, 0644)
			sz := 0
			for _, e := range extra {
				sz += len(e.String())
			}
			fmt.Fprintf(f, "%v nlits=%d size=%d\n", d, len(extra), sz)
			if d > 100*time.Millisecond {
				for _, e := range extra {
					fmt.Fprintf(f, "   %s\n", e.String())
				}
			}
			f.Close()
		}
	}
	r := "unknown"
	for _, l := range lines {
		if l == "sat" || l == "unsat" || l == "unknown" {
			r = l
		}
	}
	if sawErr {
		r = "unknown"
	}
	s.dur += time.Since(t0)
	switch r {
	case "sat":
		s.nSat++
	case "unsat":
		s.nUnsat++
	default:
		s.nUnknown++
	}
	return r
}

// Value returns the model value of a term after a sat answer.
func (s *Solver) Value(t *Term) (uint64, bool) {
	if t.isConst() {
		if t.op == opTrue {
			return 1, true
		}
		return t.val, true
	}
	s.send("(get-value (" + s.ref(t) + "))")
	lines, sawErr := s.sync()
	if sawErr || len(lines) == 0 {
		return 0, false
	}
	l := strings.Join(lines, " ")
	l = strings.TrimRight(l, ") ")
	i := strings.LastIndex(l, " ")
	v := l[i+1:]
	switch {
	case strings.HasPrefix(v, "#x"):
		u, err := strconv.ParseUint(v[2:], 16, 64)
		return u, err == nil
	case strings.HasPrefix(v, "#b"):
		u, err := strconv.ParseUint(v[2:], 2, 64)
		return u, err == nil
	case v == "true":
		return 1, true
	case v == "false":
		return 0, true
	}
	// (_ bvN w) form
	if j := strings.LastIndex(l, "(_ bv"); j >= 0 {
		f := strings.Fields(l[j+5:])
		if len(f) > 0 {
			u, err := strconv.ParseUint(f[0], 10, 64)
			return u, err == nil
		}
	}
	return 0, false
}

func (s *Solver) Close() {
	s.in.Flush()
	s.inC.Close()
	s.cmd.Wait()
}

// Model reads the values of the given variables after a sat answer.
func (s *Solver) Model(vars []*Term) (map[*Term]uint64, bool) {
	out := make(map[*Term]uint64, len(vars))
	var names []string
	var ask []*Term
	for _, v := range vars {
		if s.emit[v] {
			names = append(names, v.name)
			ask = append(ask, v)
		}
	}
	if len(ask) == 0 {
		return out, true
	}
	s.send("(get-value (" + strings.Join(names, " ") + "))")
	lines, sawErr := s.sync()
	if sawErr {
		return nil, false
	}
	txt := strings.Join(lines, " ")
	// ((a #x01) (b true) (c (_ bv3 8)) ...)
	byName := make(map[string]*Term, len(ask))
	for _, v := range ask {
		byName[v.name] = v
	}
	i := 0
	n := len(txt)
	for i < n {
		// find "(name "
		j := strings.IndexByte(txt[i:], '(')
		if j < 0 {
			break
		}
		i += j + 1
		k := i
		for k < n && txt[k] != ' ' && txt[k] != '(' && txt[k] != ')' {
			k++
		}
		name := txt[i:k]
		v, ok := byName[name]
		if !ok {
			i = k
			continue
		}
		i = k
		for i < n && txt[i] == ' ' {
			i++
		}
		var val uint64
		switch {
		case strings.HasPrefix(txt[i:], "#x"):
			e := i + 2
			for e < n && txt[e] != ')' && txt[e] != ' ' {
				e++
			}
			val, _ = strconv.ParseUint(txt[i+2:e], 16, 64)
			i = e
		case strings.HasPrefix(txt[i:], "#b"):
			e := i + 2
			for e < n && txt[e] != ')' && txt[e] != ' ' {
				e++
			}
			val, _ = strconv.ParseUint(txt[i+2:e], 2, 64)
			i = e
		case strings.HasPrefix(txt[i:], "true"):
			val = 1
			i += 4
		case strings.HasPrefix(txt[i:], "false"):
			val = 0
			i += 5
		case strings.HasPrefix(txt[i:], "(_ bv"):
			e := i + 5
			for e < n && txt[e] != ' ' {
				e++
			}
			val, _ = strconv.ParseUint(txt[i+5:e], 10, 64)
			for e < n && txt[e] != ')' {
				e++
			}
			i = e + 1
		default:
			return nil, false
		}
		out[v] = val
	}
	if len(out) != len(ask) {
		return nil, false
	}
	return out, true
}
