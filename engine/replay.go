package main

import (
	"bufio"
	"bytes"
	"encoding/json"
	"fmt"
	"os"
	"os/exec"
	"path/filepath"
	"regexp"
	"sort"
	"strings"
	"time"
)

type replayCase struct {
	Harness        string   `json:"harness"`
	Vector         []int64  `json:"vector"`
	Tier           int      `json:"tier"`
	ExpectCovers   []string `json:"expect_covers,omitempty"`
	ExpectObserves []string `json:"expect_observes,omitempty"`
}

type replayResult struct {
	Index    int      `json:"index"`
	Harness  string   `json:"harness"`
	Outcome  string   `json:"outcome"`
	Label    string   `json:"label,omitempty"`
	Kind     string   `json:"kind,omitempty"`
	Pos      string   `json:"pos,omitempty"`
	Msg      string   `json:"msg,omitempty"`
	Covers   []string `json:"covers,omitempty"`
	Observes []string `json:"observes,omitempty"`
	Monitors []string `json:"monitors,omitempty"`
}

var harnessFuncRe = regexp.MustCompile(`(?m)^func (Harness_[A-Za-z0-9_]+)\(\)`)

// harnessFiles returns the harness sources (virtual /repo path -> real path)
// and the generated registry source.
func harnessFiles(harnessDir, repoDir string) (map[string]string, []byte, []string, error) {
	ents, err := os.ReadDir(harnessDir)
	if err != nil {
		return nil, nil, nil, err
	}
	files := map[string]string{}
	var names []string
	for _, e := range ents {
		if e.IsDir() || !strings.HasSuffix(e.Name(), ".go") {
			continue
		}
		real := filepath.Join(harnessDir, e.Name())
		files[filepath.Join(repoDir, "zz_verif_"+e.Name())] = real
		b, err := os.ReadFile(real)
		if err != nil {
			return nil, nil, nil, err
		}
		for _, mt := range harnessFuncRe.FindAllSubmatch(b, -1) {
			names = append(names, string(mt[1]))
		}
	}
	sort.Strings(names)
	var sb strings.Builder
	sb.WriteString("//go:build verif\n\npackage reftable\n\nvar verifHarnesses = map[string]func(){\n")
	for _, n := range names {
		fmt.Fprintf(&sb, "\t%q: %s,\n", n, n)
	}
	sb.WriteString("}\n")
	return files, []byte(sb.String()), names, nil
}

// nativeReplay runs the cases against the natively compiled working tree.
func nativeReplay(repoDir, harnessDir string, cases []replayCase, dropFiles map[string]bool) ([]replayResult, string, error) {
	if len(cases) == 0 {
		return nil, "", nil
	}
	tmp, err := os.MkdirTemp("", "symgo-replay-")
	if err != nil {
		return nil, "", err
	}
	defer os.RemoveAll(tmp)
	files, registry, _, err := harnessFiles(harnessDir, repoDir)
	if err != nil {
		return nil, "", err
	}
	for v := range files {
		if dropFiles[v] {
			delete(files, v)
		}
	}
	regPath := filepath.Join(tmp, "registry.go")
	if dropFiles != nil && len(dropFiles) > 0 {
		// rebuild the registry without the dropped files' harnesses
		var names []string
		for _, real := range files {
			b, _ := os.ReadFile(real)
			for _, mt := range harnessFuncRe.FindAllSubmatch(b, -1) {
				names = append(names, string(mt[1]))
			}
		}
		sort.Strings(names)
		var sb strings.Builder
		sb.WriteString("//go:build verif\n\npackage reftable\n\nvar verifHarnesses = map[string]func(){\n")
		for _, n := range names {
			fmt.Fprintf(&sb, "\t%q: %s,\n", n, n)
		}
		sb.WriteString("}\n")
		registry = []byte(sb.String())
	}
	os.WriteFile(regPath, registry, 0o644)
	files[filepath.Join(repoDir, "zz_verif_registry.go")] = regPath
	// interposition by source rewriting (DESIGN.md 3.5): regenerated from the
	// current sources for every replay
	for _, fn := range []string{"stack.go", "reftable.go"} {
		src, err := os.ReadFile(filepath.Join(repoDir, fn))
		if err != nil {
			continue
		}
		out := rewriteFS(string(src))
		p := filepath.Join(tmp, "rewritten_"+fn)
		os.WriteFile(p, []byte(out), 0o644)
		files[filepath.Join(repoDir, fn)] = p
	}
	files[filepath.Join(repoDir, "zz_verif_replay_test.go")] = filepath.Join(harnessDir, "replay_test.go.in")
	ov := map[string]map[string]string{"Replace": files}
	ovPath := filepath.Join(tmp, "overlay.json")
	ob, _ := json.Marshal(ov)
	os.WriteFile(ovPath, ob, 0o644)
	inPath, outPath := filepath.Join(tmp, "cases.json"), filepath.Join(tmp, "results.jsonl")
	cb, _ := json.Marshal(cases)
	os.WriteFile(inPath, cb, 0o644)

	// C15: build the C driver from the current /repo/c sources
	cdriver := ""
	for _, c := range cases {
		if strings.Contains(c.Harness, "_C15_") {
			cdir := filepath.Join(repoDir, "c")
			cdriver = filepath.Join(tmp, "cdriver")
			// the whole C library, the C-side harness code and the driver, under AddressSanitizer
			args := []string{"-O1", "-g", "-w", "-fsanitize=address", "-fno-omit-frame-pointer", "-I" + cdir, "-I" + filepath.Join(cdir, "include"),
				filepath.Join(harnessDir, "cdriver.c"), filepath.Join(harnessDir, "cshim.c")}
			srcs, err := cSources(cdir)
			if err != nil {
				return nil, "", err
			}
			args = append(args, srcs...)
			args = append(args, "-lz", "-o", cdriver)
			if b, err := exec.Command("clang", args...).CombinedOutput(); err != nil {
				return nil, string(b), fmt.Errorf("cannot build the C replay driver: %v\n%s", err, tail(string(b), 20))
			}
			break
		}
	}
	results := make([]replayResult, len(cases))
	have := make([]bool, len(cases))
	start := 0
	var lastLog string
	for attempt := 0; attempt < len(cases)+2 && start < len(cases); attempt++ {
		os.Remove(outPath)
		race := ""
		limit := "ulimit -S -v 12000000; "
		for _, c := range cases {
			if strings.Contains(c.Harness, "_C19_") {
				// shared-reader harnesses: two goroutines under the race detector
				race, limit = "-race ", ""
			}
		}
		cmd := exec.Command("bash", "-c", limit+"exec go test "+race+"-tags verif -vet=off -count=1 -timeout 20m -overlay "+ovPath+" -run '^TestVerifReplay$' .")
		cmd.Dir = repoDir
		cmd.Env = append(os.Environ(), "GOFLAGS=-mod=mod", "GOPROXY=off", "GOSUMDB=off", "GOTOOLCHAIN=local",
			"GORACE=halt_on_error=1 exitcode=66", "VERIF_CDRIVER="+cdriver, "VERIF_REPLAY_IN="+inPath, "VERIF_REPLAY_OUT="+outPath, fmt.Sprintf("VERIF_REPLAY_START=%d", start))
		var outb bytes.Buffer
		cmd.Stdout, cmd.Stderr = &outb, &outb
		t0 := time.Now()
		runErr := cmd.Run()
		_ = t0
		lastLog = outb.String()
		f, err := os.Open(outPath)
		if err != nil {
			return nil, lastLog, fmt.Errorf("native replay produced no results: %v\n%s", runErr, tail(lastLog, 40))
		}
		started := -1
		sc := bufio.NewScanner(f)
		sc.Buffer(make([]byte, 1<<20), 1<<26)
		for sc.Scan() {
			var r replayResult
			if json.Unmarshal(sc.Bytes(), &r) != nil {
				continue
			}
			if r.Outcome == "started" {
				started = r.Index
				continue
			}
			if r.Index >= 0 && r.Index < len(cases) {
				results[r.Index], have[r.Index] = r, true
				started = -1
			}
		}
		f.Close()
		if started >= 0 && !have[started] {
			// the process died inside this case
			kind := "crash"
			if strings.Contains(lastLog, "DATA RACE") {
				kind = "race"
			} else if strings.Contains(lastLog, "out of memory") || strings.Contains(lastLog, "cannot allocate memory") {
				kind = "alloc"
			} else if strings.Contains(lastLog, "stack overflow") || strings.Contains(lastLog, "goroutine stack exceeds") {
				kind = "hang"
			}
			results[started] = replayResult{Index: started, Harness: cases[started].Harness, Outcome: "fatal", Kind: kind, Msg: tail(lastLog, 15)}
			have[started] = true
		}
		next := len(cases)
		for i := range cases {
			if !have[i] {
				next = i
				break
			}
		}
		if next == start && runErr != nil && started < 0 {
			return nil, lastLog, fmt.Errorf("native replay failed: %v\n%s", runErr, tail(lastLog, 40))
		}
		start = next
	}
	return results, lastLog, nil
}

var fsRewrites = []struct{ re, to string }{
	{`\bos\.OpenFile\(`, "verifOpenFile("},
	{`\bos\.Open\(`, "verifOpen("},
	{`\bos\.Rename\(`, "verifRename("},
	{`\bos\.Remove\(`, "verifRemove("},
	{`\bioutil\.ReadFile\(`, "verifReadFile("},
	{`\bioutil\.TempFile\(`, "verifTempFile("},
	{`\bioutil\.ReadDir\(`, "verifReadDir("},
	{`\bioutil\.WriteFile\(`, "verifWriteFile("},
	{`\bos\.WriteFile\(`, "verifWriteFile("},
	{`\bos\.ReadFile\(`, "verifReadFile("},
	{`\bos\.Create\(`, "verifCreate("},
	{`\*os\.File\b`, "*verifFile"},
}

// rewriteFS redirects the package-level filesystem calls and *os.File of a
// source file to the verif* wrappers of harness/verif_sched.go.  Replacements
// stay on their lines, so positions in panics and traces are unchanged.
func rewriteFS(src string) string {
	for _, r := range fsRewrites {
		src = regexp.MustCompile(r.re).ReplaceAllString(src, r.to)
	}
	if strings.Contains(src, `"io/ioutil"`) {
		src += "\nvar _ = ioutil.Discard\n"
	}
	if regexp.MustCompile(`(?m)^\s*"os"$`).MatchString(src) {
		src += "\nvar _ = os.ErrInvalid\n"
	}
	return src
}

func tail(s string, n int) string {
	lines := strings.Split(strings.TrimRight(s, "\n"), "\n")
	if len(lines) > n {
		lines = lines[len(lines)-n:]
	}
	return strings.Join(lines, "\n")
}

func sameStrings(a, b []string) bool {
	if len(a) != len(b) {
		return false
	}
	for i := range a {
		if a[i] != b[i] {
			return false
		}
	}
	return true
}

// confirms reports whether the native result reproduces the violation.
func confirms(v *Violation, r *replayResult) bool {
	switch v.Kind {
	case "assert":
		return r.Outcome == "assert" && r.Label == v.Label
	case "panic":
		if r.Outcome == "fatal" {
			return v.Label == "alloc" && r.Kind == "alloc" || v.Label == "hang" && r.Kind == "hang"
		}
		if r.Outcome == "hang" {
			return v.Label == "hang"
		}
		if r.Outcome != "panic" {
			return false
		}
		if v.Label == "alloc" && r.Kind == "alloc" && r.Pos == "" && strings.Contains(v.Msg, "budget") {
			// an allocation budget stated by the harness: the native run measured its own total
			return true
		}
		base := v.Pos
		if i := strings.LastIndex(base, "/"); i >= 0 {
			base = base[i+1:]
		}
		kindOK := r.Kind == v.Label || (v.Label == "explicit" && r.Kind == "logpanic") || (v.Label == "logpanic" && r.Kind == "explicit")
		return kindOK && r.Pos == base
	case "monitor":
		if v.Label == "shared-write" {
			// a data race report, a read that changed the shared object graph, or an observable difference between concurrent readers
			return (r.Outcome == "fatal" && r.Kind == "race") || (r.Outcome == "assert" && (r.Label == "concurrent-reads-differ" || r.Label == "shared-state-written-by-a-read")) || r.Outcome == "panic"
		}
		for _, mh := range r.Monitors {
			if strings.HasPrefix(mh, v.Label) {
				return true
			}
		}
		return false
	}
	return false
}
