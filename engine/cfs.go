package main

// C15, stack level: the file-system and environment calls of c/stack.c and
// c/blocksource.c mapped onto the model file system of fs.go (the same
// directory namespace, step/trace points, monitors and process identities the
// Go side uses), so that a Go process and a C process can work on one stack
// directory within one path.

import (
	"fmt"
	"strconv"
	"strings"
)

type cDir struct {
	names []string
	pos   int
	ent   *LObj
}

func (m *Machine) cString(v interface{}, what string) string {
	p, ok := v.(LPtr)
	if !ok || p.obj == nil {
		m.cpanic("nil", what+": NULL string")
	}
	var sb strings.Builder
	for k := 0; ; k++ {
		c := m.cbyte(p, k)
		if c.t != nil {
			panic(pathAbort{"cut: symbolic string passed to " + what})
		}
		if c.c == 0 {
			return sb.String()
		}
		sb.WriteByte(byte(c.c))
	}
}

func (m *Machine) cSetErrno(e Val) {
	code := 5 // EIO
	if ifc, ok := e.(Iface); ok {
		if ne, ok := ifc.v.(*nativeErr); ok {
			switch ne.kind {
			case "exist":
				code = 17
			case "notexist":
				code = 2
			case "closed":
				code = 9
			case "invalid":
				code = 22
			}
		}
	}
	m.lstore(LPtr{m.cErrnoObj(), 0}, cInt(uint64(code), 32, false), 4)
}

func (m *Machine) cErrnoObj() *LObj {
	if m.cerrno == nil {
		m.cerrno = m.cAlloc(4)
		m.cerrno.what = "errno"
		m.cZero(m.cerrno, 0, 4)
	}
	return m.cerrno
}

func (m *Machine) cFile(v interface{}, what string) *fileObj {
	fd := m.cConc(v, what)
	f := m.cfds[fd]
	if f == nil {
		m.lstore(LPtr{m.cErrnoObj(), 0}, cInt(9, 32, false), 4) // EBADF
	}
	return f
}

func (m *Machine) cNewFd(f *fileObj) Int {
	if m.cfds == nil {
		m.cfds = map[int]*fileObj{}
		m.cfdNext = 3
	}
	fd := m.cfdNext
	m.cfdNext++
	m.cfds[fd] = f
	return cInt(uint64(fd), 32, false)
}

var cMinus1 = cInt(0xffffffff, 32, false)

// cToArray copies n bytes of C memory into a fresh Go byte array.
func (m *Machine) cToArray(p LPtr, n int) *Array {
	a := newByteArray(n)
	for k := 0; k < n; k++ {
		a.set(k, m.cbyte(p, k))
	}
	return a
}

func (m *Machine) cFromArray(p LPtr, a *Array, off, n int) {
	for k := 0; k < n; k++ {
		m.lstore(LPtr{p.obj, p.off + k}, a.get(off+k).(Int), 1)
	}
}

// libcFS models the calls; ok=false: not one of them.
func (m *Machine) libcFS(name string, args []interface{}) (interface{}, bool) {
	switch name {
	case "__errno_location":
		return LPtr{m.cErrnoObj(), 0}, true
	case "open":
		path := m.cString(args[0], "open")
		flags := m.cConc(args[1], "open flags")
		r, _ := m.fsIntrinsic("os.OpenFile", []Val{mkStr(path), goInt(flags), goInt(0666)})
		t := r.(Tuple)
		if t[1] != nil {
			m.cSetErrno(t[1])
			return cMinus1, true
		}
		return m.cNewFd(t[0].(*fileObj)), true
	case "close":
		f := m.cFile(args[0], "close")
		if f == nil {
			return cMinus1, true
		}
		delete(m.cfds, m.cConc(args[0], "close"))
		if e, _ := m.fsIntrinsic("(*os.File).Close", []Val{f}); e != nil {
			m.cSetErrno(e)
			return cMinus1, true
		}
		return cInt(0, 32, false), true
	case "write":
		f := m.cFile(args[0], "write")
		if f == nil {
			return cInt(^uint64(0), 64, false), true
		}
		p := args[1].(LPtr)
		n := m.cConc(args[2], "write size")
		a := m.cToArray(p, n)
		r, _ := m.fsIntrinsic("(*os.File).Write", []Val{f, Slice{arr: a, len: n, cap: n}})
		t := r.(Tuple)
		if t[1] != nil {
			m.cSetErrno(t[1])
			return cInt(^uint64(0), 64, false), true
		}
		return cInt(uint64(n), 64, false), true
	case "read", "pread":
		f := m.cFile(args[0], name)
		if f == nil {
			return cInt(^uint64(0), 64, false), true
		}
		p := args[1].(LPtr)
		n := m.cConc(args[2], "read size")
		a := newByteArray(n)
		var r Val
		if name == "read" {
			r, _ = m.fsIntrinsic("(*os.File).Read", []Val{f, Slice{arr: a, len: n, cap: n}})
		} else {
			r, _ = m.fsIntrinsic("(*os.File).ReadAt", []Val{f, Slice{arr: a, len: n, cap: n}, goInt(m.cConc(args[3], "pread offset"))})
		}
		t := r.(Tuple)
		got := int(t[0].(Int).c)
		if t[1] != nil && got == 0 {
			if ifc, ok := t[1].(Iface); ok {
				if ne, ok := ifc.v.(*nativeErr); ok && ne.kind != "eof" {
					m.cSetErrno(t[1])
					return cInt(^uint64(0), 64, false), true
				}
			}
			return cInt(0, 64, false), true // end of file
		}
		if got > 0 {
			m.ccheck(p, got, name)
		}
		m.cFromArray(p, a, 0, got)
		return cInt(uint64(got), 64, false), true
	case "lseek":
		f := m.cFile(args[0], "lseek")
		if f == nil {
			return cInt(^uint64(0), 64, false), true
		}
		r, _ := m.fsIntrinsic("(*os.File).Seek", []Val{f, goInt(m.cConc(args[1], "lseek offset")), goInt(m.cConc(args[2], "lseek whence"))})
		t := r.(Tuple)
		if t[1] != nil {
			m.cSetErrno(t[1])
			return cInt(^uint64(0), 64, false), true
		}
		return cInt(t[0].(Int).c, 64, false), true
	case "fstat":
		f := m.cFile(args[0], "fstat")
		if f == nil {
			return cMinus1, true
		}
		r, _ := m.fsIntrinsic("(*os.File).Stat", []Val{f})
		t := r.(Tuple)
		if t[1] != nil {
			m.cSetErrno(t[1])
			return cMinus1, true
		}
		st := args[1].(LPtr)
		m.ccheck(st, 144, "fstat")
		m.clearRange(st.obj, st.off, 144)
		m.cZero(st.obj, st.off, 144)
		m.lstore(LPtr{st.obj, st.off + 24}, cInt(0100644, 32, false), 4) // st_mode
		m.lstore(LPtr{st.obj, st.off + 48}, cInt(uint64(f.ino.n), 64, false), 8) // st_size
		return cInt(0, 32, false), true
	case "unlink", "remove":
		path := m.cString(args[0], name)
		if e, _ := m.fsIntrinsic("os.Remove", []Val{mkStr(path)}); e != nil {
			m.cSetErrno(e)
			return cMinus1, true
		}
		return cInt(0, 32, false), true
	case "rename":
		from, to := m.cString(args[0], "rename"), m.cString(args[1], "rename")
		if e, _ := m.fsIntrinsic("os.Rename", []Val{mkStr(from), mkStr(to)}); e != nil {
			m.cSetErrno(e)
			return cMinus1, true
		}
		return cInt(0, 32, false), true
	case "mkstemp":
		p := args[0].(LPtr)
		tmpl := m.cString(p, "mkstemp")
		if !strings.HasSuffix(tmpl, "XXXXXX") {
			m.lstore(LPtr{m.cErrnoObj(), 0}, cInt(22, 32, false), 4)
			return cMinus1, true
		}
		i := strings.LastIndex(tmpl, "/")
		dir, pat := tmpl[:i], tmpl[i+1:len(tmpl)-6]+"*"
		r, _ := m.fsIntrinsic("io/ioutil.TempFile", []Val{mkStr(dir), mkStr(pat)})
		t := r.(Tuple)
		if t[1] != nil {
			m.cSetErrno(t[1])
			return cMinus1, true
		}
		f := t[0].(*fileObj)
		// the model numbers temporary files with 9 digits: keep the last 6 in place of XXXXXX
		nm := f.name
		suffix := nm[len(nm)-6:]
		fs := m.needFS()
		newName := tmpl[:len(tmpl)-6] + suffix
		if newName != nm {
			fs.dir[newName] = fs.dir[nm]
			delete(fs.dir, nm)
			f.name = newName
		}
		for k := 0; k < 6; k++ {
			m.lstore(LPtr{p.obj, p.off + len(tmpl) - 6 + k}, cInt(uint64(suffix[k]), 8, false), 1)
		}
		return m.cNewFd(f), true
	case "gettimeofday":
		tv := args[0].(LPtr)
		m.cclock++
		m.lstore(LPtr{tv.obj, tv.off}, cInt(uint64(1600000000+m.cclock), 64, false), 8)
		m.lstore(LPtr{tv.obj, tv.off + 8}, cInt(0, 64, false), 8)
		return cInt(0, 32, false), true
	case "rand":
		// successive distinct values (as the Go side's math/rand stub): no table-name collisions
		m.crand++
		return cInt(uint64(0x1000+m.crand), 32, false), true
	case "usleep", "sleep_millisec":
		m.step(false, "sleep")
		return cInt(0, 32, false), true
	case "strrchr":
		p := args[0].(LPtr)
		ch := m.mk(m.ctx.Resize(m.term(args[1].(Int)), 8, false), false)
		last := LPtr{}
		for k := 0; ; k++ {
			c := m.cbyte(p, k)
			if m.branch(m.ctx.Cmp(opEq, m.term(c), m.term(ch))) {
				last = LPtr{p.obj, p.off + k}
			}
			if m.branch(m.ctx.Cmp(opEq, m.term(c), m.ctx.BV(8, 0))) {
				return last, true
			}
		}
	case "snprintf":
		dst := args[0].(LPtr)
		size := m.cConc(args[1], "snprintf size")
		out := m.cFormat(m.cString(args[2], "snprintf format"), args[3:])
		n := len(out)
		if size > 0 {
			w := n
			if w > size-1 {
				w = size - 1
			}
			for k := 0; k < w; k++ {
				m.lstore(LPtr{dst.obj, dst.off + k}, cInt(uint64(out[k]), 8, false), 1)
			}
			m.lstore(LPtr{dst.obj, dst.off + w}, cInt(0, 8, false), 1)
		}
		return cInt(uint64(n), 32, false), true
	case "opendir":
		path := m.cString(args[0], "opendir")
		r, _ := m.fsIntrinsic("io/ioutil.ReadDir", []Val{mkStr(path)})
		t := r.(Tuple)
		d := &cDir{}
		sl := t[0].(Slice)
		for i := 0; i < sl.len; i++ {
			d.names = append(d.names, sl.arr.cells[sl.off+i].(Iface).v.(*fileInfo).name)
		}
		o := m.cAlloc(8)
		o.what = "DIR"
		m.cZero(o, 0, 8)
		if m.cdirs == nil {
			m.cdirs = map[*LObj]*cDir{}
		}
		m.cdirs[o] = d
		return LPtr{o, 0}, true
	case "readdir":
		d := m.cdirs[args[0].(LPtr).obj]
		if d == nil {
			m.cpanic("nil", "readdir on a bad DIR")
		}
		if d.pos >= len(d.names) {
			return LPtr{}, true
		}
		if d.ent == nil {
			d.ent = m.cAlloc(280)
			d.ent.what = "struct dirent"
		}
		m.clearRange(d.ent, 0, 280)
		m.cZero(d.ent, 0, 280)
		nm := d.names[d.pos]
		d.pos++
		for k := 0; k < len(nm) && k < 255; k++ {
			m.lstore(LPtr{d.ent, 19 + k}, cInt(uint64(nm[k]), 8, false), 1) // d_name
		}
		return LPtr{d.ent, 0}, true
	case "closedir":
		delete(m.cdirs, args[0].(LPtr).obj)
		return cInt(0, 32, false), true
	}
	return nil, false
}

// cFormat: the printf subset the C library uses (%s %d %u %x %c %% with flags
// 0, width, and the l/ll/z length modifiers) on concrete arguments.
func (m *Machine) cFormat(f string, args []interface{}) string {
	var sb strings.Builder
	ai := 0
	for i := 0; i < len(f); i++ {
		if f[i] != '%' {
			sb.WriteByte(f[i])
			continue
		}
		i++
		if i < len(f) && f[i] == '%' {
			sb.WriteByte('%')
			continue
		}
		spec := "%"
		for i < len(f) && strings.IndexByte("0123456789-+ #", f[i]) >= 0 {
			spec += string(f[i])
			i++
		}
		long := 0
		for i < len(f) && (f[i] == 'l' || f[i] == 'z' || f[i] == 'h' || f[i] == 'j') {
			if f[i] == 'l' || f[i] == 'z' || f[i] == 'j' {
				long++
			}
			i++
		}
		if i >= len(f) || ai >= len(args) {
			unsupported("C: printf format %q", f)
		}
		a := args[ai]
		ai++
		switch f[i] {
		case 's':
			sb.WriteString(fmt.Sprintf(spec+"s", m.cString(a, "printf %s")))
		case 'c':
			sb.WriteByte(byte(m.cConc(a, "printf %c")))
		case 'd', 'i':
			iv := a.(Int)
			if iv.t != nil {
				panic(pathAbort{"cut: symbolic value formatted by printf"})
			}
			sb.WriteString(fmt.Sprintf(spec+"d", sext64(iv.c, int(iv.w))))
		case 'u', 'x', 'X':
			iv := a.(Int)
			if iv.t != nil {
				panic(pathAbort{"cut: symbolic value formatted by printf"})
			}
			v := iv.c
			if long == 0 {
				v &= 0xffffffff
			}
			if f[i] == 'u' {
				sb.WriteString(fmt.Sprintf(spec+"d", v))
			} else {
				sb.WriteString(fmt.Sprintf(spec+string(f[i]), v))
			}
		default:
			unsupported("C: printf conversion %q in %q", string(f[i]), f)
		}
	}
	return sb.String()
}

var _ = strconv.Itoa
