package main

// LLVM-IR (clang-14 -O1, textual, one llvm-link'ed module) front end for the C
// implementation in /repo/c.  Shares terms / solver / explorer with the Go SSA
// executor.  The module is parsed and every instruction decoded once per
// engine; memory, globals and frames live in the per-path Machine.

import (
	"fmt"
	"math"
	"os"
	"regexp"
	"strconv"
	"strings"
)

// ---------- types ----------

type LType struct {
	kind   string // "int","ptr","array","struct","void","float"
	bits   int
	elem   *LType
	n      int
	fields []*LType
	name   string
	packed bool
}

type LModule struct {
	structs map[string]*LType
	funcs   map[string]*LFunc
	decls   map[string]bool
	globals map[string]*LGlobal
	tcache  map[string]ltypeRest
}

type ltypeRest struct {
	t    *LType
	used int
}

type LGlobal struct {
	name string
	typ  *LType
	init lopnd
	ext  bool
}

const (
	kReg = iota
	kInt
	kNull
	kUndef
	kZero
	kStr
	kAgg
	kSym // @name (+off): global object or function
	kFloat
	kUnsup
)

type lopnd struct {
	kind int
	reg  int
	c    uint64
	bits int
	str  []byte
	agg  []lopnd
	aggT []*LType
	sym  string
	off  int
	f    float64
	text string
}

type lphi struct {
	blk string
	v   lopnd
}

type LInstr struct {
	res   int // register index or -1
	op    string
	text  string
	t, t2 *LType
	a     []lopnd
	at    []*LType // types of a (calls, gep indices)
	byval []int    // per call argument: size to copy (0 = not byval)
	pred  string
	lbl   []string
	cases []uint64
	phi   []lphi
	idx   []int
	callee string
	line  int
}

type LBlock struct {
	name   string
	instrs []*LInstr
	nphi   int
}

type LFunc struct {
	name   string
	params []struct {
		typ  *LType
		name string
		reg  int
	}
	ret    *LType
	blocks []*LBlock
	bidx   map[string]int
	regs   map[string]int
	raw    [][]string // undecoded block bodies (decoded lazily, once)
	rawLn  [][]int
	mod    *LModule
	done   bool
}

func (t *LType) size() int {
	switch t.kind {
	case "int":
		return (t.bits + 7) / 8
	case "float":
		return t.bits / 8
	case "ptr":
		return 8
	case "array":
		return t.n * t.elem.size()
	case "struct":
		off := 0
		al := 1
		for _, f := range t.fields {
			a := f.align()
			if t.packed {
				a = 1
			}
			if a > al {
				al = a
			}
			off = (off + a - 1) / a * a
			off += f.size()
		}
		return (off + al - 1) / al * al
	}
	return 0
}

func (t *LType) align() int {
	switch t.kind {
	case "int":
		n := (t.bits + 7) / 8
		a := 1
		for a < n && a < 8 {
			a *= 2
		}
		return a
	case "float":
		return t.bits / 8
	case "ptr":
		return 8
	case "array":
		return t.elem.align()
	case "struct":
		if t.packed {
			return 1
		}
		al := 1
		for _, f := range t.fields {
			if a := f.align(); a > al {
				al = a
			}
		}
		return al
	}
	return 1
}

func (t *LType) fieldOff(i int) int {
	off := 0
	for k, f := range t.fields {
		a := f.align()
		if t.packed {
			a = 1
		}
		off = (off + a - 1) / a * a
		if k == i {
			return off
		}
		off += f.size()
	}
	panic("field index")
}

var reArr = regexp.MustCompile(`^\[(\d+) x `)

// parseType parses a type at the start of s and returns the rest.
func (mod *LModule) parseType(s string) (*LType, string) {
	s = strings.TrimLeft(s, " ")
	var t *LType
	switch {
	case strings.HasPrefix(s, "void"):
		t, s = &LType{kind: "void"}, s[4:]
	case strings.HasPrefix(s, "double"):
		t, s = &LType{kind: "float", bits: 64}, s[6:]
	case strings.HasPrefix(s, "float"):
		t, s = &LType{kind: "float", bits: 32}, s[5:]
	case strings.HasPrefix(s, "..."):
		t, s = &LType{kind: "void"}, s[3:]
	case len(s) > 1 && s[0] == 'i' && s[1] >= '0' && s[1] <= '9':
		j := 1
		for j < len(s) && s[j] >= '0' && s[j] <= '9' {
			j++
		}
		b, _ := strconv.Atoi(s[1:j])
		t, s = &LType{kind: "int", bits: b}, s[j:]
	case s[0] == '[':
		m := reArr.FindStringSubmatch(s)
		if m == nil {
			panic("parseType: " + s)
		}
		n, _ := strconv.Atoi(m[1])
		el, rest := mod.parseType(s[len(m[0]):])
		rest = strings.TrimLeft(rest, " ")
		t, s = &LType{kind: "array", n: n, elem: el}, rest[1:] // skip ]
	case s[0] == '{' || strings.HasPrefix(s, "<{"):
		t = &LType{kind: "struct"}
		if s[0] == '<' {
			t.packed = true
			s = s[1:]
		}
		s = s[1:]
		for {
			s = strings.TrimLeft(s, " ,")
			if s[0] == '}' {
				s = s[1:]
				break
			}
			var f *LType
			f, s = mod.parseType(s)
			t.fields = append(t.fields, f)
		}
		if t.packed {
			s = strings.TrimPrefix(s, ">")
		}
	case s[0] == '%':
		j := 1
		if j < len(s) && s[j] == '"' {
			j = 2 + strings.IndexByte(s[2:], '"') + 1
		} else {
			for j < len(s) && (s[j] == '.' || s[j] == '_' || (s[j] >= 'a' && s[j] <= 'z') || (s[j] >= 'A' && s[j] <= 'Z') || (s[j] >= '0' && s[j] <= '9')) {
				j++
			}
		}
		nm := s[:j]
		st, ok := mod.structs[nm]
		if !ok {
			st = &LType{kind: "struct", name: nm}
			mod.structs[nm] = st
		}
		t, s = st, s[j:]
	default:
		panic("parseType: " + s)
	}
	for {
		s2 := strings.TrimLeft(s, " ")
		if strings.HasPrefix(s2, "*") {
			t = &LType{kind: "ptr", elem: t}
			s = s2[1:]
			continue
		}
		if strings.HasPrefix(s2, "(") { // function type: skip to matching paren
			depth := 0
			j := 0
			for ; j < len(s2); j++ {
				if s2[j] == '(' {
					depth++
				} else if s2[j] == ')' {
					depth--
					if depth == 0 {
						break
					}
				}
			}
			t = &LType{kind: "void", name: "fn"}
			s = s2[j+1:]
			continue
		}
		break
	}
	return t, s
}

var attrWords = []string{"noundef", "nocapture", "readonly", "writeonly", "nonnull", "noalias", "signext", "zeroext", "immarg", "readnone", "returned", "nofree", "inreg"}
var reAttrParen = regexp.MustCompile(`^(align \d+|dereferenceable\(\d+\)|dereferenceable_or_null\(\d+\)|byval\([^)]*\)|sret\([^)]*\))\s*`)

func stripAttrs(s string) string {
	for {
		s = strings.TrimLeft(s, " ")
		progressed := false
		for _, w := range attrWords {
			if strings.HasPrefix(s, w+" ") {
				s = s[len(w)+1:]
				progressed = true
			}
		}
		if m := reAttrParen.FindString(s); m != "" {
			s = s[len(m):]
			progressed = true
		}
		if !progressed {
			return s
		}
	}
}

// splitTop splits at commas that are not nested in brackets or string literals.
func splitTop(s string) []string {
	var out []string
	depth, start := 0, 0
	inStr := false
	for i := 0; i < len(s); i++ {
		if inStr {
			if s[i] == '"' {
				inStr = false
			}
			continue
		}
		switch s[i] {
		case '"':
			inStr = true
		case '(', '[', '{', '<':
			depth++
		case ')', ']', '}', '>':
			depth--
		case ',':
			if depth == 0 {
				out = append(out, s[start:i])
				start = i + 1
			}
		}
	}
	return append(out, s[start:])
}

// ---------- operand / constant parser ----------

type lparser struct {
	mod *LModule
	s   string
	fn  *LFunc
}

func (p *lparser) skip() { p.s = strings.TrimLeft(p.s, " ") }

func (p *lparser) eat(lit string) bool {
	p.skip()
	if strings.HasPrefix(p.s, lit) {
		p.s = p.s[len(lit):]
		return true
	}
	return false
}

func (p *lparser) typ() *LType {
	t, rest := p.mod.parseType(p.s)
	p.s = rest
	return t
}

func (p *lparser) ident() string {
	j := 0
	if j < len(p.s) && p.s[j] == '"' {
		j = 1 + strings.IndexByte(p.s[1:], '"') + 1
	} else {
		for j < len(p.s) && (p.s[j] == '.' || p.s[j] == '_' || p.s[j] == '-' || p.s[j] == '$' || (p.s[j] >= 'a' && p.s[j] <= 'z') || (p.s[j] >= 'A' && p.s[j] <= 'Z') || (p.s[j] >= '0' && p.s[j] <= '9')) {
			j++
		}
	}
	id := p.s[:j]
	p.s = p.s[j:]
	return id
}

func (p *lparser) regOf(name string) int {
	if p.fn == nil {
		panic("C: register outside a function: " + name)
	}
	r, ok := p.fn.regs[name]
	if !ok {
		r = len(p.fn.regs)
		p.fn.regs[name] = r
	}
	return r
}

// balanced consumes a parenthesised group starting at p.s[0]=='(' and returns its inside.
func (p *lparser) balanced() string {
	depth := 0
	for j := 0; j < len(p.s); j++ {
		switch p.s[j] {
		case '(':
			depth++
		case ')':
			depth--
			if depth == 0 {
				in := p.s[1:j]
				p.s = p.s[j+1:]
				return in
			}
		}
	}
	panic("C: unbalanced: " + p.s)
}

func (p *lparser) val(t *LType) lopnd {
	p.skip()
	s := p.s
	switch {
	case strings.HasPrefix(s, "%"):
		p.s = s[1:]
		return lopnd{kind: kReg, reg: p.regOf("%" + p.ident())}
	case strings.HasPrefix(s, "@"):
		p.s = s[1:]
		return lopnd{kind: kSym, sym: p.ident()}
	case strings.HasPrefix(s, "null"):
		p.s = s[4:]
		return lopnd{kind: kNull}
	case strings.HasPrefix(s, "true"):
		p.s = s[4:]
		return lopnd{kind: kInt, c: 1, bits: 1}
	case strings.HasPrefix(s, "false"):
		p.s = s[5:]
		return lopnd{kind: kInt, c: 0, bits: 1}
	case strings.HasPrefix(s, "undef"), strings.HasPrefix(s, "poison"):
		if strings.HasPrefix(s, "undef") {
			p.s = s[5:]
		} else {
			p.s = s[6:]
		}
		return lopnd{kind: kUndef}
	case strings.HasPrefix(s, "zeroinitializer"):
		p.s = s[len("zeroinitializer"):]
		return lopnd{kind: kZero}
	case strings.HasPrefix(s, `c"`):
		j := 2
		var b []byte
		for s[j] != '"' {
			if s[j] == '\\' {
				v, _ := strconv.ParseUint(s[j+1:j+3], 16, 8)
				b = append(b, byte(v))
				j += 3
			} else {
				b = append(b, s[j])
				j++
			}
		}
		p.s = s[j+1:]
		return lopnd{kind: kStr, str: b}
	case s[0] == '{' || strings.HasPrefix(s, "<{") || s[0] == '[':
		closer := byte('}')
		if s[0] == '[' {
			closer = ']'
		}
		if s[0] == '<' {
			p.s = s[2:]
		} else {
			p.s = s[1:]
		}
		o := lopnd{kind: kAgg}
		for {
			p.skip()
			if p.s[0] == closer {
				p.s = p.s[1:]
				break
			}
			if p.s[0] == ',' {
				p.s = p.s[1:]
				continue
			}
			et := p.typ()
			o.aggT = append(o.aggT, et)
			o.agg = append(o.agg, p.val(et))
		}
		if s[0] == '<' {
			p.eat(">")
		}
		return o
	case strings.HasPrefix(s, "getelementptr"):
		p.s = strings.TrimPrefix(s, "getelementptr")
		p.eat("inbounds")
		p.skip()
		q := &lparser{mod: p.mod, s: p.balanced(), fn: p.fn}
		base := q.typ()
		q.eat(",")
		pt := q.typ()
		pv := q.val(pt)
		if pv.kind != kSym {
			return lopnd{kind: kUnsup, text: s}
		}
		cur := base
		first := true
		for q.eat(",") {
			it := q.typ()
			iv := q.val(it)
			if iv.kind != kInt {
				return lopnd{kind: kUnsup, text: s}
			}
			idx := int(sext64(iv.c, it.bits))
			if first {
				pv.off += idx * cur.size()
				first = false
				continue
			}
			switch cur.kind {
			case "struct":
				pv.off += cur.fieldOff(idx)
				cur = cur.fields[idx]
			case "array":
				pv.off += idx * cur.elem.size()
				cur = cur.elem
			default:
				return lopnd{kind: kUnsup, text: s}
			}
		}
		return pv
	case strings.HasPrefix(s, "bitcast"):
		p.s = strings.TrimPrefix(s, "bitcast")
		p.skip()
		q := &lparser{mod: p.mod, s: p.balanced(), fn: p.fn}
		ft := q.typ()
		return q.val(ft)
	case s[0] == '-' || (s[0] >= '0' && s[0] <= '9'):
		j := 1
		for j < len(s) && (s[j] == '.' || s[j] == 'e' || s[j] == '+' || s[j] == '-' || s[j] == 'x' || (s[j] >= '0' && s[j] <= '9') || (s[j] >= 'A' && s[j] <= 'F') || (s[j] >= 'a' && s[j] <= 'f')) {
			j++
		}
		tok := s[:j]
		p.s = s[j:]
		if t != nil && t.kind == "float" {
			if strings.HasPrefix(tok, "0x") {
				u, _ := strconv.ParseUint(tok[2:], 16, 64)
				return lopnd{kind: kFloat, f: math.Float64frombits(u)}
			}
			f, _ := strconv.ParseFloat(tok, 64)
			return lopnd{kind: kFloat, f: f}
		}
		n, err := strconv.ParseInt(tok, 10, 64)
		if err != nil {
			u, err2 := strconv.ParseUint(tok, 10, 64)
			if err2 != nil {
				panic("C: operand " + tok)
			}
			n = int64(u)
		}
		bits := 64
		if t != nil && t.kind == "int" {
			bits = t.bits
		}
		return lopnd{kind: kInt, c: uint64(n) & mask(bits), bits: bits}
	}
	// other constant expressions (ptrtoint, sub, trunc ...): only an error if evaluated
	word := p.ident()
	p.skip()
	if strings.HasPrefix(p.s, "(") {
		p.balanced()
	}
	return lopnd{kind: kUnsup, text: word}
}

// ---------- module parser ----------

var reDefine = regexp.MustCompile(`@([\w.$]+)\((.*)\)[^()]*\{$`)
var reDeclare = regexp.MustCompile(`@([\w.$]+)\(`)
var reMeta = regexp.MustCompile(`, ![a-zA-Z.]+ ![0-9]+`)
var linkWords = []string{"private", "internal", "dso_local", "external", "common", "hidden", "weak", "linkonce_odr", "unnamed_addr", "local_unnamed_addr", "available_externally", "thread_local", "weak_odr", "linkonce", "extern_weak", "dso_preemptable"}

func ParseLL(path string) *LModule {
	data, err := os.ReadFile(path)
	if err != nil {
		panic(err)
	}
	mod := &LModule{structs: map[string]*LType{}, funcs: map[string]*LFunc{}, decls: map[string]bool{}, globals: map[string]*LGlobal{}}
	lines := strings.Split(string(data), "\n")
	for i := 0; i < len(lines); i++ {
		l := lines[i]
		if strings.HasPrefix(l, "%") && strings.Contains(l, " = type ") {
			parts := strings.SplitN(l, " = type ", 2)
			if strings.HasPrefix(parts[1], "opaque") {
				continue
			}
			st, ok := mod.structs[parts[0]]
			if !ok {
				st = &LType{kind: "struct", name: parts[0]}
				mod.structs[parts[0]] = st
			}
			body, _ := mod.parseType(parts[1])
			st.fields, st.packed = body.fields, body.packed
			continue
		}
		if strings.HasPrefix(l, "@") && strings.Contains(l, " = ") {
			parts := strings.SplitN(l, " = ", 2)
			g := &LGlobal{name: parts[0][1:]}
			rest := parts[1]
			for {
				rest = strings.TrimLeft(rest, " ")
				hit := false
				for _, w := range linkWords {
					if strings.HasPrefix(rest, w+" ") {
						if w == "external" || w == "extern_weak" {
							g.ext = true
						}
						rest = rest[len(w)+1:]
						hit = true
					}
				}
				if !hit {
					break
				}
			}
			if strings.HasPrefix(rest, "global ") {
				rest = rest[7:]
			} else if strings.HasPrefix(rest, "constant ") {
				rest = rest[9:]
			} else {
				continue // alias etc.
			}
			p := &lparser{mod: mod, s: rest}
			g.typ = p.typ()
			if !g.ext {
				g.init = p.val(g.typ)
			} else {
				g.init = lopnd{kind: kZero}
			}
			mod.globals[g.name] = g
			continue
		}
		if strings.HasPrefix(l, "declare ") {
			if m := reDeclare.FindStringSubmatch(l); m != nil {
				mod.decls[m[1]] = true
			}
			continue
		}
		if strings.HasPrefix(l, "define ") {
			m := reDefine.FindStringSubmatch(l)
			if m == nil {
				panic("define: " + l)
			}
			f := &LFunc{name: m[1], bidx: map[string]int{}, regs: map[string]int{}, mod: mod}
			hdr := l[len("define "):strings.Index(l, "@")]
			for _, w := range []string{"dso_local", "internal", "hidden", "noundef", "zeroext", "signext", "nonnull", "fastcc", "noalias", "available_externally", "linkonce_odr", "private", "weak"} {
				hdr = strings.ReplaceAll(hdr, w+" ", "")
			}
			hdr = stripAttrs(hdr)
			f.ret, _ = mod.parseType(hdr)
			ps := m[2]
			pp := &lparser{mod: mod, fn: f}
			for _, a := range splitTop(ps) {
				if strings.TrimSpace(a) == "" {
					continue
				}
				t, rest := mod.parseType(a)
				rest = strings.TrimSpace(stripAttrs(rest))
				if rest == "" {
					rest = "%" + strconv.Itoa(len(f.params))
				}
				f.params = append(f.params, struct {
					typ  *LType
					name string
					reg  int
				}{t, rest, pp.regOf(rest)})
			}
			// the unnamed entry block is numbered after the (unnamed) parameters
			cur := strconv.Itoa(len(f.params))
			var body []string
			var lns []int
			first := true
			flush := func() {
				f.bidx[cur] = len(f.blocks)
				f.blocks = append(f.blocks, &LBlock{name: cur})
				f.raw = append(f.raw, body)
				f.rawLn = append(f.rawLn, lns)
				body, lns = nil, nil
			}
			for i++; i < len(lines) && lines[i] != "}"; i++ {
				ln := reMeta.ReplaceAllString(lines[i], "")
				if k := strings.Index(ln, " ; preds"); k >= 0 {
					ln = ln[:k]
				}
				ln = strings.TrimRight(ln, " ")
				if ln == "" {
					continue
				}
				if !strings.HasPrefix(ln, " ") && strings.HasSuffix(strings.Fields(ln)[0], ":") {
					nm := strings.TrimSuffix(strings.Fields(ln)[0], ":")
					if first && len(body) == 0 {
						cur = nm
					} else {
						flush()
						cur = nm
					}
					first = false
					continue
				}
				first = false
				ln = strings.TrimSpace(ln)
				if strings.HasPrefix(ln, "switch ") && !strings.Contains(ln, "]") {
					for i+1 < len(lines) {
						i++
						nx := strings.TrimSpace(reMeta.ReplaceAllString(lines[i], ""))
						ln += " " + nx
						if strings.Contains(nx, "]") {
							break
						}
					}
				}
				body = append(body, ln)
				lns = append(lns, i+1)
			}
			flush()
			mod.funcs[f.name] = f
		}
	}
	// decode everything now: the module is shared read-only by the workers
	for _, f := range mod.funcs {
		f.decode()
	}
	return mod
}

var callSkip = []string{"tail ", "notail ", "musttail ", "fastcc ", "ccc ", "noundef ", "zeroext ", "signext ", "nonnull ", "noalias "}

func (f *LFunc) decode() {
	if f.done {
		return
	}
	f.done = true
	mod := f.mod
	for bi, body := range f.raw {
		b := f.blocks[bi]
		for li, ln := range body {
			in := &LInstr{res: -1, text: ln, line: f.rawLn[bi][li]}
			p := &lparser{mod: mod, fn: f}
			if strings.HasPrefix(ln, "%") && strings.Contains(ln, " = ") {
				pr := strings.SplitN(ln, " = ", 2)
				in.res, ln = p.regOf(pr[0]), pr[1]
			}
			in.op = strings.Fields(ln)[0]
			if in.op == "tail" || in.op == "notail" || in.op == "musttail" {
				in.op = "call"
			}
			p.s = ln
			func() {
				defer func() {
					if r := recover(); r != nil {
						if _, isEng := r.(engineError); isEng {
							panic(r)
						}
						// undecodable: only an error if executed
						in.op, in.text = "undecodable", fmt.Sprintf("%s (%v)", in.text, r)
					}
				}()
				f.decodeInstr(in, p)
			}()
			if in.op == "phi" {
				b.nphi++
			}
			b.instrs = append(b.instrs, in)
		}
	}
	f.raw, f.rawLn = nil, nil
}

func (f *LFunc) decodeInstr(in *LInstr, p *lparser) {
	switch in.op {
	case "alloca":
		p.eat("alloca")
		in.t = p.typ()
		in.a = []lopnd{{kind: kInt, c: 1, bits: 64}}
		if p.eat(",") {
			p.skip()
			if !strings.HasPrefix(p.s, "align") {
				ct := p.typ()
				in.a[0] = p.val(ct)
			}
		}
	case "getelementptr":
		p.eat("getelementptr")
		p.eat("inbounds")
		in.t = p.typ()
		p.eat(",")
		pt := p.typ()
		in.a = append(in.a, p.val(pt))
		in.at = append(in.at, pt)
		for p.eat(",") {
			it := p.typ()
			in.a = append(in.a, p.val(it))
			in.at = append(in.at, it)
		}
	case "load":
		p.eat("load")
		p.eat("volatile")
		in.t = p.typ()
		p.eat(",")
		pt := p.typ()
		in.a = []lopnd{p.val(pt)}
	case "store":
		p.eat("store")
		p.eat("volatile")
		in.t = p.typ()
		v := p.val(in.t)
		p.eat(",")
		pt := p.typ()
		in.a = []lopnd{v, p.val(pt)}
	case "trunc", "zext", "sext", "bitcast", "ptrtoint", "inttoptr", "uitofp", "sitofp", "fptoui", "fptosi", "fpext", "fptrunc":
		p.eat(in.op)
		in.t = p.typ()
		in.a = []lopnd{p.val(in.t)}
		p.eat("to")
		in.t2 = p.typ()
	case "freeze":
		p.eat("freeze")
		in.t = p.typ()
		in.a = []lopnd{p.val(in.t)}
	case "add", "sub", "mul", "and", "or", "xor", "shl", "lshr", "ashr", "udiv", "urem", "sdiv", "srem":
		p.eat(in.op)
		for p.eat("nuw") || p.eat("nsw") || p.eat("exact") {
		}
		in.t = p.typ()
		x := p.val(in.t)
		p.eat(",")
		in.a = []lopnd{x, p.val(in.t)}
	case "icmp":
		p.eat("icmp")
		p.skip()
		in.pred = p.ident()
		in.t = p.typ()
		x := p.val(in.t)
		p.eat(",")
		in.a = []lopnd{x, p.val(in.t)}
	case "select":
		p.eat("select")
		ct := p.typ()
		c := p.val(ct)
		p.eat(",")
		in.t = p.typ()
		x := p.val(in.t)
		p.eat(",")
		t2 := p.typ()
		in.a = []lopnd{c, x, p.val(t2)}
	case "phi":
		p.eat("phi")
		in.t = p.typ()
		for {
			if !p.eat("[") {
				break
			}
			v := p.val(in.t)
			p.eat(",")
			p.eat("%")
			blk := p.ident()
			p.eat("]")
			in.phi = append(in.phi, lphi{blk, v})
			if !p.eat(",") {
				break
			}
		}
	case "br":
		p.eat("br")
		if p.eat("label") {
			p.eat("%")
			in.lbl = []string{p.ident()}
		} else {
			ct := p.typ()
			in.a = []lopnd{p.val(ct)}
			p.eat(",")
			p.eat("label")
			p.eat("%")
			l1 := p.ident()
			p.eat(",")
			p.eat("label")
			p.eat("%")
			in.lbl = []string{l1, p.ident()}
		}
	case "switch":
		p.eat("switch")
		in.t = p.typ()
		in.a = []lopnd{p.val(in.t)}
		p.eat(",")
		p.eat("label")
		p.eat("%")
		in.lbl = []string{p.ident()}
		p.eat("[")
		for !p.eat("]") {
			ct := p.typ()
			cv := p.val(ct)
			p.eat(",")
			p.eat("label")
			p.eat("%")
			in.cases = append(in.cases, cv.c)
			in.lbl = append(in.lbl, p.ident())
		}
	case "ret":
		p.eat("ret")
		in.t = p.typ()
		if in.t.kind != "void" || in.t.name == "fn" {
			in.a = []lopnd{p.val(in.t)}
		}
	case "call":
		for {
			p.skip()
			hit := false
			if strings.HasPrefix(p.s, "call ") {
				p.s = p.s[5:]
				hit = true
			}
			for _, w := range callSkip {
				if strings.HasPrefix(p.s, w) {
					p.s = p.s[len(w):]
					hit = true
				}
			}
			if m := reAttrParen.FindString(p.s); m != "" {
				p.s = p.s[len(m):]
				hit = true
			}
			if !hit {
				break
			}
		}
		in.t = p.typ()
		p.skip()
		if strings.HasPrefix(p.s, "@") {
			p.s = p.s[1:]
			in.callee = p.ident()
		} else {
			in.a = append(in.a, p.val(nil))
			in.at = append(in.at, nil)
			in.byval = append(in.byval, 0)
		}
		p.skip()
		for _, a := range splitTop(p.balanced()) {
			if strings.TrimSpace(a) == "" {
				continue
			}
			q := &lparser{mod: p.mod, fn: f, s: a}
			at := q.typ()
			bv := 0
			if strings.Contains(q.s, "byval(") && at.kind == "ptr" {
				bv = at.elem.size()
			}
			q.s = stripAttrs(q.s)
			in.a = append(in.a, q.val(at))
			in.at = append(in.at, at)
			in.byval = append(in.byval, bv)
		}
	case "extractvalue":
		p.eat("extractvalue")
		in.t = p.typ()
		in.a = []lopnd{p.val(in.t)}
		for p.eat(",") {
			p.skip()
			n, _ := strconv.Atoi(p.ident())
			in.idx = append(in.idx, n)
		}
	case "insertvalue":
		p.eat("insertvalue")
		in.t = p.typ()
		agg := p.val(in.t)
		p.eat(",")
		in.t2 = p.typ()
		in.a = []lopnd{agg, p.val(in.t2)}
		for p.eat(",") {
			p.skip()
			n, _ := strconv.Atoi(p.ident())
			in.idx = append(in.idx, n)
		}
	case "unreachable":
	default:
		in.op = "undecodable"
	}
}

// ---------- memory ----------

type LObj struct {
	base  int // pseudo address (distinct objects never compare equal as integers)
	cells map[int]lcell
	size  int
	freed bool
	what  string
}

type lcell struct {
	v    interface{} // Int, LPtr or LFn
	size int
}

type LPtr struct {
	obj *LObj
	off int
}

type LFn struct{ name string }

type LAgg []interface{}

type LF64 float64

const cObjShift = 26

// cAlloc creates a fresh C object with its own pseudo address range.
func (m *Machine) cAlloc(n int) *LObj {
	o := &LObj{base: (len(m.cobjs) + 1) << cObjShift, cells: map[int]lcell{}, size: n}
	m.cobjs = append(m.cobjs, o)
	return o
}

func (m *Machine) cZero(o *LObj, off, n int) {
	z := cInt(0, 8, false)
	for k := off; k < off+n; k++ {
		o.cells[k] = lcell{z, 1}
	}
}

func (m *Machine) cpanic(kind, msg string) {
	panic(targetPanic{kind: "cfault", msg: "C (" + kind + "): " + msg, fn: "C:" + m.cfn, pos: "c"})
}

func (m *Machine) ccheck(p LPtr, size int, what string) {
	if p.obj == nil {
		m.cpanic("nil", what+" through NULL")
	}
	if p.obj.freed {
		m.cpanic("uaf", what+" of freed memory ("+p.obj.what+")")
	}
	if p.off < 0 || p.off+size > p.obj.size {
		m.cpanic("index", fmt.Sprintf("out-of-bounds %s (off %d size %d, obj size %d %s)", what, p.off, size, p.obj.size, p.obj.what))
	}
}

// clearRange removes cells overlapping [off, off+size), splitting wider integer cells.
func (m *Machine) clearRange(o *LObj, off, size int) {
	for k := off - 7; k < off+size; k++ {
		c, ok := o.cells[k]
		if !ok || k+c.size <= off {
			continue
		}
		if k >= off && k+c.size <= off+size {
			delete(o.cells, k)
			continue
		}
		// partial overlap: split an integer cell into bytes, drop pointers
		delete(o.cells, k)
		if iv, isInt := c.v.(Int); isInt {
			for b := 0; b < c.size; b++ {
				if k+b >= off && k+b < off+size {
					continue
				}
				if iv.t == nil {
					o.cells[k+b] = lcell{cInt(iv.c>>(8*uint(b)), 8, false), 1}
				} else {
					o.cells[k+b] = lcell{m.mk(m.ctx.Extract(iv.t, 8*b+7, 8*b), false), 1}
				}
			}
		}
	}
}

func (m *Machine) lstore(p LPtr, v interface{}, size int) {
	m.ccheck(p, size, "store")
	m.clearRange(p.obj, p.off, size)
	if iv, ok := v.(Int); ok && size > 1 { // split into bytes, little endian
		for k := 0; k < size; k++ {
			if iv.t == nil {
				p.obj.cells[p.off+k] = lcell{cInt(iv.c>>(8*uint(k)), 8, false), 1}
			} else {
				p.obj.cells[p.off+k] = lcell{m.mk(m.ctx.Extract(iv.t, 8*k+7, 8*k), false), 1}
			}
		}
		return
	}
	if lp, ok := v.(LPtr); ok && lp.obj == nil && size == 8 {
		m.cZero(p.obj, p.off, 8) // NULL is all-zero bytes
		return
	}
	p.obj.cells[p.off] = lcell{v, size}
}

func (m *Machine) lload(p LPtr, size int, wantPtr bool) interface{} {
	m.ccheck(p, size, "load")
	if c, ok := p.obj.cells[p.off]; ok && c.size == size {
		if _, isInt := c.v.(Int); !(wantPtr && isInt) {
			return c.v
		}
	}
	var t *Term
	allZero := true
	for k := size - 1; k >= 0; k-- {
		c, ok := p.obj.cells[p.off+k]
		if ok && c.size != 1 {
			if iv, isInt := c.v.(Int); isInt { // a wider integer cell: split it
				m.clearRange(p.obj, p.off+k, 0)
				_ = iv
				delete(p.obj.cells, p.off+k)
				for b := 0; b < c.size; b++ {
					if iv.t == nil {
						p.obj.cells[p.off+k+b] = lcell{cInt(iv.c>>(8*uint(b)), 8, false), 1}
					} else {
						p.obj.cells[p.off+k+b] = lcell{m.mk(m.ctx.Extract(iv.t, 8*b+7, 8*b), false), 1}
					}
				}
				c = p.obj.cells[p.off+k]
			} else {
				m.cpanic("index", "integer load overlapping a pointer cell")
			}
		}
		if !ok {
			if m.coversPtr(p.obj, p.off+k) {
				m.cpanic("index", "integer load overlapping a pointer cell")
			}
			// uninitialised memory: an arbitrary byte (fixed from now on)
			m.cuninit++
			c = lcell{Int{t: m.ctx.Var(fmt.Sprintf("c_uninit_%d", m.cuninit), 8), w: 8}, 1}
			p.obj.cells[p.off+k] = c
		}
		bi, isInt := c.v.(Int)
		if !isInt {
			m.cpanic("index", "integer load from a pointer cell")
		}
		if bi.t != nil || bi.c != 0 {
			allZero = false
		}
		b := m.term(bi)
		if t == nil {
			t = b
		} else {
			t = m.ctx.Concat(t, b)
		}
	}
	if wantPtr {
		if allZero {
			return LPtr{}
		}
		v := m.mk(t, false)
		if v.t != nil {
			unsupported("C: pointer loaded from symbolic bytes")
		}
		return m.ptrOfInt(v.c)
	}
	return m.mk(t, false)
}

func (m *Machine) coversPtr(o *LObj, off int) bool {
	for k := off - 7; k < off; k++ {
		if c, ok := o.cells[k]; ok && k+c.size > off {
			return true
		}
	}
	return false
}

func (m *Machine) ptrOfInt(a uint64) LPtr {
	if a == 0 {
		return LPtr{}
	}
	i := int(a>>cObjShift) - 1
	if i < 0 || i >= len(m.cobjs) {
		unsupported("C: integer %#x converted to a pointer", a)
	}
	return LPtr{m.cobjs[i], int(a & (1<<cObjShift - 1))}
}

func (m *Machine) intOfPtr(v interface{}, bits int) Int {
	switch pv := v.(type) {
	case LPtr:
		if pv.obj == nil {
			return cInt(0, bits, false)
		}
		return cInt(uint64(pv.obj.base+pv.off), bits, false)
	case LFn:
		return cInt(uint64(len(pv.name))<<40|1<<60, bits, false)
	}
	return v.(Int)
}

// cmemcpy copies n bytes cell by cell (pointers stay pointers).
func (m *Machine) cmemcpy(d, s LPtr, n int) {
	if n == 0 {
		return
	}
	m.ccheck(d, n, "memcpy store")
	m.ccheck(s, n, "memcpy load")
	type ent struct {
		k int
		c lcell
	}
	var ents []ent
	for k := 0; k < n; {
		c, ok := s.obj.cells[s.off+k]
		if !ok {
			if m.coversPtr(s.obj, s.off+k) {
				// inside a wider cell: read the byte
				ents = append(ents, ent{k, lcell{m.lload(LPtr{s.obj, s.off + k}, 1, false), 1}})
			}
			k++
			continue
		}
		if k+c.size <= n {
			ents = append(ents, ent{k, c})
			k += c.size
			continue
		}
		if _, isInt := c.v.(Int); isInt {
			ents = append(ents, ent{k, lcell{m.lload(LPtr{s.obj, s.off + k}, 1, false), 1}})
		}
		k++
	}
	m.clearRange(d.obj, d.off, n)
	for _, e := range ents {
		d.obj.cells[d.off+e.k] = e.c
	}
}

// ---------- globals ----------

func (m *Machine) cGlobal(mod *LModule, name string) interface{} {
	if mod.funcs[name] != nil || mod.decls[name] {
		return LFn{name}
	}
	if o, ok := m.cglobals[name]; ok {
		return LPtr{o, 0}
	}
	g := mod.globals[name]
	if g == nil {
		unsupported("C: unknown symbol @%s", name)
	}
	if m.cglobals == nil {
		m.cglobals = map[string]*LObj{}
	}
	o := m.cAlloc(g.typ.size())
	o.what = "@" + name
	m.cglobals[name] = o
	m.cInit(mod, o, 0, g.typ, g.init)
	return LPtr{o, 0}
}

func (m *Machine) cInit(mod *LModule, o *LObj, off int, t *LType, c lopnd) {
	switch c.kind {
	case kZero, kUndef:
		m.cZero(o, off, t.size())
	case kNull:
		m.cZero(o, off, 8)
	case kInt:
		m.lstore(LPtr{o, off}, cInt(c.c, t.bits, false), t.size())
	case kStr:
		for k, b := range c.str {
			o.cells[off+k] = lcell{cInt(uint64(b), 8, false), 1}
		}
	case kSym:
		v := m.cGlobal(mod, c.sym)
		if pv, ok := v.(LPtr); ok {
			pv.off += c.off
			v = pv
		}
		o.cells[off] = lcell{v, 8}
	case kAgg:
		m.cZero(o, off, t.size())
		for i, e := range c.agg {
			switch t.kind {
			case "struct":
				m.clearRange(o, off+t.fieldOff(i), t.fields[i].size())
				m.cInit(mod, o, off+t.fieldOff(i), t.fields[i], e)
			case "array":
				m.clearRange(o, off+i*t.elem.size(), t.elem.size())
				m.cInit(mod, o, off+i*t.elem.size(), t.elem, e)
			}
		}
	case kFloat:
		o.cells[off] = lcell{LF64(c.f), 8}
	default:
		// unsupported constant expression: poison bytes (left uninitialised)
	}
}

// ---------- executor ----------

type lframe struct {
	env  []interface{}
	prev string
}

func (m *Machine) lval(mod *LModule, fr *lframe, t *LType, o lopnd) interface{} {
	switch o.kind {
	case kReg:
		v := fr.env[o.reg]
		if v == nil {
			panic("C: unbound register")
		}
		return v
	case kInt:
		bits := o.bits
		if t != nil && t.kind == "int" {
			bits = t.bits
		}
		return cInt(o.c, bits, false)
	case kNull:
		return LPtr{}
	case kSym:
		v := m.cGlobal(mod, o.sym)
		if pv, ok := v.(LPtr); ok {
			pv.off += o.off
			return pv
		}
		return v
	case kUndef, kZero:
		if t == nil {
			return cInt(0, 64, false)
		}
		switch t.kind {
		case "ptr":
			return LPtr{}
		case "int":
			return cInt(0, t.bits, false)
		case "float":
			return LF64(0)
		case "struct":
			a := make(LAgg, len(t.fields))
			for i, ft := range t.fields {
				a[i] = m.lval(mod, fr, ft, o)
			}
			return a
		case "array":
			a := make(LAgg, t.n)
			for i := range a {
				a[i] = m.lval(mod, fr, t.elem, o)
			}
			return a
		}
	case kFloat:
		return LF64(o.f)
	case kAgg:
		a := make(LAgg, len(o.agg))
		for i := range o.agg {
			a[i] = m.lval(mod, fr, o.aggT[i], o.agg[i])
		}
		return a
	}
	unsupported("C: unsupported operand %s", o.text)
	return nil
}

func (m *Machine) boolOf(v interface{}) *Term { // i1 -> Bool
	return m.ctx.Cmp(opEq, m.term(v.(Int)), m.ctx.BV(1, 1))
}

func (m *Machine) i1(b *Term) Int { return m.mk(m.ctx.Ite(b, m.ctx.BV(1, 1), m.ctx.BV(1, 0)), false) }

func (m *Machine) cConc(v interface{}, what string) int {
	i := v.(Int)
	if i.t == nil {
		return int(sext64(i.c, int(i.w)))
	}
	return int(sext64(m.concretize(i.t, what), int(i.w)))
}

var lbinOps = map[string]Op{"add": opAdd, "sub": opSub, "mul": opMul, "and": opBAnd, "or": opBOr, "xor": opBXor, "shl": opShl, "lshr": opLshr, "ashr": opAshr, "udiv": opUdiv, "urem": opUrem, "sdiv": opSdiv, "srem": opSrem}

func (m *Machine) CallC(mod *LModule, name string, args []interface{}) interface{} {
	f := mod.funcs[name]
	if f == nil {
		unsupported("C: no function %s in the compiled C sources", name)
	}
	m.funcs["C:"+name] = true
	prevFn := m.cfn
	m.cfn = name
	m.cdepth++
	if m.cdepth > 400 {
		panic(targetPanic{kind: "hang", msg: "C: call depth exceeds 400", fn: "C:" + name, pos: "c"})
	}
	defer func() { m.cfn = prevFn; m.cdepth-- }()
	if len(args) != len(f.params) {
		unsupported("C: %s called with %d arguments, wants %d", name, len(args), len(f.params))
	}
	fr := &lframe{env: make([]interface{}, len(f.regs))}
	for i, p := range f.params {
		fr.env[p.reg] = args[i]
	}
	var allocas []*LObj
	defer func() {
		for _, o := range allocas {
			o.freed = true
			o.what = "stack object of " + name
		}
	}()
	b := f.blocks[0]
	for {
		var next string
		// phis read their inputs simultaneously
		if b.nphi > 0 {
			vals := make([]interface{}, b.nphi)
			for i := 0; i < b.nphi; i++ {
				in := b.instrs[i]
				found := false
				for _, ph := range in.phi {
					if ph.blk == fr.prev {
						vals[i] = m.lval(mod, fr, in.t, ph.v)
						found = true
						break
					}
				}
				if !found {
					unsupported("C: phi without edge from %s: %s", fr.prev, in.text)
				}
			}
			for i := 0; i < b.nphi; i++ {
				fr.env[b.instrs[i].res] = vals[i]
			}
		}
		for _, in := range b.instrs[b.nphi:] {
			m.steps++
			if m.steps > m.eng.maxSteps && m.steps > m.maxSteps {
				panic(pathAbort{"cut: step budget"})
			}
			var r interface{}
			switch in.op {
			case "alloca":
				n := m.cConc(m.lval(mod, fr, nil, in.a[0]), "alloca count")
				o := m.cAlloc(in.t.size() * n)
				o.what = "alloca in " + name
				allocas = append(allocas, o)
				r = LPtr{o, 0}
			case "getelementptr":
				pv, ok := m.lval(mod, fr, in.at[0], in.a[0]).(LPtr)
				if !ok {
					unsupported("C: getelementptr on a non-pointer: %s", in.text)
				}
				cur := in.t
				for k := 1; k < len(in.a); k++ {
					idx := m.cConc(m.lval(mod, fr, in.at[k], in.a[k]), "gep index")
					if k == 1 {
						pv.off += idx * cur.size()
						continue
					}
					switch cur.kind {
					case "struct":
						pv.off += cur.fieldOff(idx)
						cur = cur.fields[idx]
					case "array":
						pv.off += idx * cur.elem.size()
						cur = cur.elem
					default:
						unsupported("C: gep into %s", cur.kind)
					}
				}
				r = pv
			case "load":
				pv, ok := m.lval(mod, fr, nil, in.a[0]).(LPtr)
				if !ok {
					unsupported("C: load through a non-pointer: %s", in.text)
				}
				switch in.t.kind {
				case "struct", "array":
					unsupported("C: aggregate load: %s", in.text)
				case "float":
					m.ccheck(pv, 8, "load")
					c, ok := pv.obj.cells[pv.off]
					if !ok {
						unsupported("C: float load of non-float memory")
					}
					r = c.v
				default:
					r = m.lload(pv, in.t.size(), in.t.kind == "ptr")
				}
			case "store":
				v := m.lval(mod, fr, in.t, in.a[0])
				pv, ok := m.lval(mod, fr, nil, in.a[1]).(LPtr)
				if !ok {
					unsupported("C: store through a non-pointer: %s", in.text)
				}
				if _, isAgg := v.(LAgg); isAgg {
					unsupported("C: aggregate store: %s", in.text)
				}
				m.lstore(pv, v, in.t.size())
			case "bitcast", "freeze":
				r = m.lval(mod, fr, in.t, in.a[0])
			case "trunc", "zext":
				r = m.mk(m.ctx.Resize(m.term(m.lval(mod, fr, in.t, in.a[0]).(Int)), in.t2.bits, false), false)
			case "sext":
				r = m.mk(m.ctx.Resize(m.term(m.lval(mod, fr, in.t, in.a[0]).(Int)), in.t2.bits, true), false)
			case "ptrtoint":
				r = m.intOfPtr(m.lval(mod, fr, in.t, in.a[0]), in.t2.bits)
			case "inttoptr":
				iv := m.lval(mod, fr, in.t, in.a[0]).(Int)
				if iv.t != nil {
					unsupported("C: inttoptr of a symbolic value")
				}
				r = m.ptrOfInt(iv.c)
			case "uitofp", "sitofp":
				iv := m.lval(mod, fr, in.t, in.a[0]).(Int)
				if iv.t != nil {
					unsupported("C: floating point conversion of a symbolic value")
				}
				if in.op == "sitofp" {
					r = LF64(float64(sext64(iv.c, in.t.bits)))
				} else {
					r = LF64(float64(iv.c))
				}
			case "fptoui", "fptosi":
				fv := m.lval(mod, fr, in.t, in.a[0]).(LF64)
				if in.op == "fptosi" {
					r = cInt(uint64(int64(fv)), in.t2.bits, false)
				} else {
					r = cInt(uint64(fv), in.t2.bits, false)
				}
			case "fpext", "fptrunc":
				r = m.lval(mod, fr, in.t, in.a[0])
			case "add", "sub", "mul", "and", "or", "xor", "shl", "lshr", "ashr", "udiv", "urem", "sdiv", "srem":
				xv, yv := m.lval(mod, fr, in.t, in.a[0]), m.lval(mod, fr, in.t, in.a[1])
				x, y := m.intOfPtr(xv, in.t.bits), m.intOfPtr(yv, in.t.bits)
				op := lbinOps[in.op]
				isDiv := op == opUdiv || op == opUrem || op == opSdiv || op == opSrem
				if isDiv && !(y.t == nil && y.c != 0) {
					if y.t == nil {
						m.cpanic("divide", "division by zero")
					}
					panic(pathAbort{"cut: C division by a symbolic value"})
				}
				if x.t == nil && y.t == nil {
					v, ok := foldBin(op, in.t.bits, x.c, y.c)
					if !ok {
						unsupported("C: cannot fold %s", in.text)
					}
					r = cInt(v, in.t.bits, false)
				} else if isDiv {
					r = m.mk(m.ctx.intern(&Term{op: op, args: []*Term{m.term(x), m.term(y)}, w: in.t.bits}), false)
				} else {
					r = m.mk(m.ctx.Bin(op, m.term(x), m.term(y)), false)
				}
			case "icmp":
				xv, yv := m.lval(mod, fr, in.t, in.a[0]), m.lval(mod, fr, in.t, in.a[1])
				if in.t.kind == "ptr" {
					xf, xIsFn := xv.(LFn)
					yf, yIsFn := yv.(LFn)
					if xIsFn || yIsFn {
						eq := xIsFn && yIsFn && xf.name == yf.name
						if in.pred == "ne" {
							eq = !eq
						} else if in.pred != "eq" {
							unsupported("C: ordered comparison of function pointers")
						}
						r = m.i1(m.ctx.Bool(eq))
						break
					}
					xv, yv = m.intOfPtr(xv, 64), m.intOfPtr(yv, 64)
				}
				x, y := m.term(xv.(Int)), m.term(yv.(Int))
				c := m.ctx
				var t *Term
				switch in.pred {
				case "eq":
					t = c.Cmp(opEq, x, y)
				case "ne":
					t = c.Not(c.Cmp(opEq, x, y))
				case "ult":
					t = c.Cmp(opUlt, x, y)
				case "ule":
					t = c.Cmp(opUle, x, y)
				case "ugt":
					t = c.Cmp(opUlt, y, x)
				case "uge":
					t = c.Cmp(opUle, y, x)
				case "slt":
					t = c.Cmp(opSlt, x, y)
				case "sle":
					t = c.Cmp(opSle, x, y)
				case "sgt":
					t = c.Cmp(opSlt, y, x)
				case "sge":
					t = c.Cmp(opSle, y, x)
				default:
					unsupported("C: icmp %s", in.pred)
				}
				r = m.i1(t)
			case "select":
				c := m.lval(mod, fr, nil, in.a[0])
				a, b2 := m.lval(mod, fr, in.t, in.a[1]), m.lval(mod, fr, in.t, in.a[2])
				ai, aok := a.(Int)
				bi, bok := b2.(Int)
				if aok && bok {
					r = m.mk(m.ctx.Ite(m.boolOf(c), m.term(ai), m.term(bi)), false)
				} else if m.branch(m.boolOf(c)) {
					r = a
				} else {
					r = b2
				}
			case "br":
				if len(in.lbl) == 1 {
					next = in.lbl[0]
				} else if m.branch(m.boolOf(m.lval(mod, fr, nil, in.a[0]))) {
					next = in.lbl[0]
				} else {
					next = in.lbl[1]
				}
			case "switch":
				v := m.lval(mod, fr, in.t, in.a[0]).(Int)
				next = in.lbl[0]
				for k, cv := range in.cases {
					if v.t == nil {
						if v.c == cv&mask(in.t.bits) {
							next = in.lbl[k+1]
							break
						}
						continue
					}
					if m.branch(m.ctx.Cmp(opEq, m.term(v), m.ctx.BV(in.t.bits, cv))) {
						next = in.lbl[k+1]
						break
					}
				}
			case "ret":
				if len(in.a) == 0 {
					return nil
				}
				return m.lval(mod, fr, in.t, in.a[0])
			case "extractvalue":
				v := m.lval(mod, fr, in.t, in.a[0])
				for _, ix := range in.idx {
					v = v.(LAgg)[ix]
				}
				r = v
			case "insertvalue":
				agg := m.lval(mod, fr, in.t, in.a[0]).(LAgg)
				v := m.lval(mod, fr, in.t2, in.a[1])
				r = m.insertAgg(agg, in.idx, v)
			case "call":
				r = m.ccall(mod, fr, in)
			case "unreachable":
				m.cpanic("explicit", "unreachable")
			default:
				unsupported("C: unsupported instruction in %s: %s", name, in.text)
			}
			if in.res >= 0 {
				fr.env[in.res] = r
			}
			if next != "" {
				break
			}
		}
		if next == "" {
			unsupported("C: block %s of %s falls through", b.name, name)
		}
		fr.prev = b.name
		bi, ok := f.bidx[next]
		if !ok {
			unsupported("C: no block %s in %s", next, name)
		}
		b = f.blocks[bi]
	}
}

func (m *Machine) insertAgg(a LAgg, idx []int, v interface{}) LAgg {
	n := make(LAgg, len(a))
	copy(n, a)
	if len(idx) == 1 {
		n[idx[0]] = v
	} else {
		n[idx[0]] = m.insertAgg(a[idx[0]].(LAgg), idx[1:], v)
	}
	return n
}

func (m *Machine) ccall(mod *LModule, fr *lframe, in *LInstr) interface{} {
	callee := in.callee
	first := 0
	if callee == "" {
		fv := m.lval(mod, fr, nil, in.a[0])
		fn, ok := fv.(LFn)
		if !ok {
			if pv, isPtr := fv.(LPtr); isPtr && pv.obj == nil {
				m.cpanic("nil", "call through a NULL function pointer")
			}
			unsupported("C: indirect call through a non-function value: %s", in.text)
		}
		callee = fn.name
		first = 1
	}
	cargs := make([]interface{}, 0, len(in.a)-first)
	for k := first; k < len(in.a); k++ {
		v := m.lval(mod, fr, in.at[k-first+firstAt(in)], in.a[k])
		if bv := in.byval[k-first+firstAt(in)]; bv > 0 {
			src := v.(LPtr)
			o := m.cAlloc(bv)
			o.what = "byval copy"
			m.cmemcpy(LPtr{o, 0}, src, bv)
			v = LPtr{o, 0}
		}
		cargs = append(cargs, v)
	}
	switch {
	case strings.HasPrefix(callee, "llvm.lifetime"), strings.HasPrefix(callee, "llvm.dbg"), callee == "llvm.assume", strings.HasPrefix(callee, "llvm.experimental.noalias"):
		return nil
	case strings.HasPrefix(callee, "llvm.memset"), callee == "memset":
		p := cargs[0].(LPtr)
		n := m.cConc(cargs[2], "memset size")
		if n > 0 {
			m.ccheck(p, n, "memset")
			m.clearRange(p.obj, p.off, n)
			bv := cargs[1].(Int)
			bv = m.mk(m.ctx.Resize(m.term(bv), 8, false), false)
			for k := 0; k < n; k++ {
				p.obj.cells[p.off+k] = lcell{bv, 1}
			}
		}
		return p
	case strings.HasPrefix(callee, "llvm.memcpy"), strings.HasPrefix(callee, "llvm.memmove"), callee == "memcpy", callee == "memmove":
		d, sp := cargs[0].(LPtr), cargs[1].(LPtr)
		n := m.cConc(cargs[2], "memcpy size")
		m.cmemcpy(d, sp, n)
		return d
	case strings.HasPrefix(callee, "llvm.fmuladd"):
		return LF64(float64(cargs[0].(LF64))*float64(cargs[1].(LF64)) + float64(cargs[2].(LF64)))
	case strings.HasPrefix(callee, "llvm.umax"), strings.HasPrefix(callee, "llvm.umin"), strings.HasPrefix(callee, "llvm.smax"), strings.HasPrefix(callee, "llvm.smin"):
		x, y := m.term(cargs[0].(Int)), m.term(cargs[1].(Int))
		var c *Term
		switch callee[5:9] {
		case "umax":
			c = m.ctx.Cmp(opUlt, y, x)
		case "umin":
			c = m.ctx.Cmp(opUlt, x, y)
		case "smax":
			c = m.ctx.Cmp(opSlt, y, x)
		default:
			c = m.ctx.Cmp(opSlt, x, y)
		}
		return m.mk(m.ctx.Ite(c, x, y), false)
	case callee == "abort" || callee == "__assert_fail":
		m.cpanic("explicit", "abort/assert")
	}
	if lr, ok := m.libc(callee, cargs); ok {
		return lr
	}
	if lr, ok := m.libcFS(callee, cargs); ok {
		return lr
	}
	if mod.funcs[callee] == nil {
		unsupported("C: call of unmodelled external function %s", callee)
	}
	return m.CallC(mod, callee, cargs)
}

func firstAt(in *LInstr) int {
	if in.callee == "" {
		return 1
	}
	return 0
}

// ---------- libc / zlib models ----------

func (m *Machine) cbyte(p LPtr, k int) Int {
	return m.lload(LPtr{p.obj, p.off + k}, 1, false).(Int)
}

func (m *Machine) libc(name string, args []interface{}) (interface{}, bool) {
	switch name {
	case "malloc", "calloc", "realloc":
		var n int
		var old LPtr
		switch name {
		case "malloc":
			n = m.cConc(args[0], "malloc size")
		case "calloc":
			n = m.cConc(args[0], "calloc size") * m.cConc(args[1], "calloc size")
		default:
			old = args[0].(LPtr)
			n = m.cConc(args[1], "realloc size")
		}
		if n < 0 || n > 1<<24 {
			m.cpanic("alloc", name+" of an input-driven size")
		}
		o := m.cAlloc(n)
		o.what = name
		if name == "calloc" {
			m.cZero(o, 0, n)
		}
		if old.obj != nil {
			if old.off != 0 {
				m.cpanic("uaf", "realloc of an interior pointer")
			}
			if old.obj.freed {
				m.cpanic("uaf", "realloc of freed memory")
			}
			for k, c := range old.obj.cells {
				if k+c.size <= n {
					o.cells[k] = c
				}
			}
			old.obj.freed = true
			old.obj.what = "block released by realloc"
		}
		return LPtr{o, 0}, true
	case "free":
		p := args[0].(LPtr)
		if p.obj != nil {
			if p.obj.freed {
				m.cpanic("uaf", "double free ("+p.obj.what+")")
			}
			if p.off != 0 {
				m.cpanic("uaf", "free of an interior pointer")
			}
			p.obj.freed = true
			p.obj.what = "freed block"
		}
		return nil, true
	case "strlen":
		p := args[0].(LPtr)
		for k := 0; ; k++ {
			c := m.cbyte(p, k)
			if c.t == nil {
				if c.c == 0 {
					return cInt(uint64(k), 64, false), true
				}
				continue
			}
			if m.branch(m.ctx.Cmp(opEq, c.t, m.ctx.BV(8, 0))) {
				return cInt(uint64(k), 64, false), true
			}
		}
	case "memcmp":
		a, b := args[0].(LPtr), args[1].(LPtr)
		n := m.cConc(args[2], "memcmp size")
		for k := 0; k < n; k++ {
			x, y := m.cbyte(a, k), m.cbyte(b, k)
			if m.branch(m.ctx.Not(m.ctx.Cmp(opEq, m.term(x), m.term(y)))) {
				if m.branch(m.ctx.Cmp(opUlt, m.term(x), m.term(y))) {
					return cInt(^uint64(0), 32, false), true
				}
				return cInt(1, 32, false), true
			}
		}
		return cInt(0, 32, false), true
	case "bcmp":
		a, b := args[0].(LPtr), args[1].(LPtr)
		n := m.cConc(args[2], "bcmp size")
		diff := m.ctx.Bool(false)
		for k := 0; k < n; k++ {
			x, y := m.cbyte(a, k), m.cbyte(b, k)
			diff = m.ctx.Or(diff, m.ctx.Not(m.ctx.Cmp(opEq, m.term(x), m.term(y))))
		}
		return m.mk(m.ctx.Ite(diff, m.ctx.BV(32, 1), m.ctx.BV(32, 0)), false), true
	case "strcmp", "strncmp":
		a, b := args[0].(LPtr), args[1].(LPtr)
		lim := 1 << 30
		if name == "strncmp" {
			lim = m.cConc(args[2], "strncmp size")
		}
		for k := 0; k < lim; k++ {
			x, y := m.cbyte(a, k), m.cbyte(b, k)
			if m.branch(m.ctx.Not(m.ctx.Cmp(opEq, m.term(x), m.term(y)))) {
				if m.branch(m.ctx.Cmp(opUlt, m.term(x), m.term(y))) {
					return cInt(^uint64(0), 32, false), true
				}
				return cInt(1, 32, false), true
			}
			if m.branch(m.ctx.Cmp(opEq, m.term(x), m.ctx.BV(8, 0))) {
				break
			}
		}
		return cInt(0, 32, false), true
	case "strncpy":
		d, sp := args[0].(LPtr), args[1].(LPtr)
		n := m.cConc(args[2], "strncpy size")
		done := false
		for k := 0; k < n; k++ {
			if done {
				m.lstore(LPtr{d.obj, d.off + k}, cInt(0, 8, false), 1)
				continue
			}
			c := m.cbyte(sp, k)
			m.lstore(LPtr{d.obj, d.off + k}, c, 1)
			if m.branch(m.ctx.Cmp(opEq, m.term(c), m.ctx.BV(8, 0))) {
				done = true
			}
		}
		return d, true
	case "strchr":
		p := args[0].(LPtr)
		ch := m.mk(m.ctx.Resize(m.term(args[1].(Int)), 8, false), false)
		for k := 0; ; k++ {
			c := m.cbyte(p, k)
			if m.branch(m.ctx.Cmp(opEq, m.term(c), m.term(ch))) {
				return LPtr{p.obj, p.off + k}, true
			}
			if m.branch(m.ctx.Cmp(opEq, m.term(c), m.ctx.BV(8, 0))) {
				return LPtr{}, true
			}
		}
	case "crc32":
		// zlib crc32(crc, buf, len) with crc == 0: the IEEE checksum the Go side uses
		iv := args[0].(Int)
		if iv.t != nil || iv.c != 0 {
			unsupported("C: crc32 continued from a non-zero value")
		}
		p := args[1].(LPtr)
		n := m.cConc(args[2], "crc32 length")
		arr := newByteArray(n)
		for k := 0; k < n; k++ {
			arr.set(k, m.cbyte(p, k))
		}
		v := m.crcOf(arr, 0, n).(Int)
		return m.mk(m.ctx.Resize(m.term(v), 64, false), false), true
	case "compress2":
		return m.cCompress(args), true
	case "uncompress2":
		return m.cUncompress(args), true
	}
	return nil, false
}

// cCompress models zlib compress2(dest, *destLen, src, srcLen, level) with the
// deflate model of zlib.go (contract: lossless; real zlib on concrete bytes).
func (m *Machine) cCompress(args []interface{}) interface{} {
	dst, dlenp, src := args[0].(LPtr), args[1].(LPtr), args[2].(LPtr)
	n := m.cConc(args[3], "compress2 length")
	data := newByteArray(n)
	for k := 0; k < n; k++ {
		data.set(k, m.cbyte(src, k))
	}
	stream := deflateModel(data, n)
	capv := m.cConc(m.lload(dlenp, 8, false), "compress2 capacity")
	sz := stream.size()
	if sz > capv {
		return cInt(uint64(0xfffffffb), 32, false) // Z_BUF_ERROR
	}
	for k := 0; k < sz; k++ {
		m.lstore(LPtr{dst.obj, dst.off + k}, stream.get(k).(Int), 1)
	}
	m.lstore(dlenp, cInt(uint64(sz), 64, false), 8)
	return cInt(0, 32, false)
}

type cByteSrc struct {
	m   *Machine
	p   LPtr
	n   int
	pos int
}

// cUncompress models zlib uncompress2(dest, *destLen, src, *srcLen).
func (m *Machine) cUncompress(args []interface{}) interface{} {
	dst, dlenp, src, slenp := args[0].(LPtr), args[1].(LPtr), args[2].(LPtr), args[3].(LPtr)
	capv := m.cConc(m.lload(dlenp, 8, false), "uncompress2 capacity")
	slen := m.cConc(m.lload(slenp, 8, false), "uncompress2 source length")
	in := newByteArray(slen)
	for k := 0; k < slen; k++ {
		in.set(k, m.cbyte(src, k))
	}
	out, used, errs := inflateModel(in, slen)
	if errs != "" {
		if errs == "unexpected EOF" {
			return cInt(uint64(0xfffffffb), 32, false) // Z_BUF_ERROR
		}
		return cInt(uint64(0xfffffffd), 32, false) // Z_DATA_ERROR
	}
	n := out.size()
	if n > capv {
		return cInt(uint64(0xfffffffb), 32, false)
	}
	for k := 0; k < n; k++ {
		m.lstore(LPtr{dst.obj, dst.off + k}, out.get(k).(Int), 1)
	}
	m.lstore(dlenp, cInt(uint64(n), 64, false), 8)
	m.lstore(slenp, cInt(uint64(used), 64, false), 8)
	return cInt(0, 32, false)
}
