package main

// Minimal LLVM-IR (clang-14 -O1 textual) front end for leaf C kernels.
// Shares terms / solver / explorer with the Go SSA executor.

import (
	"fmt"
	"go/token"
	"os"
	"regexp"
	"strconv"
	"strings"
)

// ---------- types ----------

type LType struct {
	kind   string // "int","ptr","array","struct","void"
	bits   int
	elem   *LType
	n      int
	fields []*LType
	name   string
}

type LModule struct {
	structs map[string]*LType
	funcs   map[string]*LFunc
}

type LInstr struct {
	res  string
	op   string
	text string
}

type LBlock struct {
	name   string
	instrs []LInstr
}

type LFunc struct {
	name   string
	params []struct {
		typ  *LType
		name string
	}
	ret    *LType
	blocks []*LBlock
	bidx   map[string]int
}

func (t *LType) size() int {
	switch t.kind {
	case "int":
		return (t.bits + 7) / 8
	case "ptr":
		return 8
	case "array":
		return t.n * t.elem.size()
	case "struct":
		off := 0
		al := 1
		for _, f := range t.fields {
			a := f.align()
			if a > al {
				al = a
			}
			off = (off + a - 1) / a * a
			off += f.size()
		}
		return (off + al - 1) / al * al
	}
	return 0
}

func (t *LType) align() int {
	switch t.kind {
	case "int":
		return (t.bits + 7) / 8
	case "ptr":
		return 8
	case "array":
		return t.elem.align()
	case "struct":
		al := 1
		for _, f := range t.fields {
			if a := f.align(); a > al {
				al = a
			}
		}
		return al
	}
	return 1
}

func (t *LType) fieldOff(i int) int {
	off := 0
	for k, f := range t.fields {
		a := f.align()
		off = (off + a - 1) / a * a
		if k == i {
			return off
		}
		off += f.size()
	}
	panic("field index")
}

// parseType parses a type at the start of s and returns the rest.
func (mod *LModule) parseType(s string) (*LType, string) {
	s = strings.TrimLeft(s, " ")
	var t *LType
	switch {
	case strings.HasPrefix(s, "void"):
		t, s = &LType{kind: "void"}, s[4:]
	case s[0] == 'i' && s[1] >= '0' && s[1] <= '9':
		j := 1
		for j < len(s) && s[j] >= '0' && s[j] <= '9' {
			j++
		}
		b, _ := strconv.Atoi(s[1:j])
		t, s = &LType{kind: "int", bits: b}, s[j:]
	case s[0] == '[':
		m := regexp.MustCompile(`^\[(\d+) x `).FindStringSubmatch(s)
		n, _ := strconv.Atoi(m[1])
		el, rest := mod.parseType(s[len(m[0]):])
		rest = strings.TrimLeft(rest, " ")
		t, s = &LType{kind: "array", n: n, elem: el}, rest[1:] // skip ]
	case s[0] == '{':
		t = &LType{kind: "struct"}
		s = s[1:]
		for {
			s = strings.TrimLeft(s, " ,")
			if s[0] == '}' {
				s = s[1:]
				break
			}
			var f *LType
			f, s = mod.parseType(s)
			t.fields = append(t.fields, f)
		}
	case s[0] == '%':
		j := 1
		for j < len(s) && (s[j] == '.' || s[j] == '_' || (s[j] >= 'a' && s[j] <= 'z') || (s[j] >= 'A' && s[j] <= 'Z') || (s[j] >= '0' && s[j] <= '9')) {
			j++
		}
		nm := s[:j]
		st, ok := mod.structs[nm]
		if !ok {
			st = &LType{kind: "struct", name: nm}
			mod.structs[nm] = st
		}
		t, s = st, s[j:]
	default:
		panic("parseType: " + s)
	}
	for {
		s2 := strings.TrimLeft(s, " ")
		if strings.HasPrefix(s2, "*") {
			t = &LType{kind: "ptr", elem: t}
			s = s2[1:]
			continue
		}
		if strings.HasPrefix(s2, "(") { // function type: skip to matching paren
			depth := 0
			j := 0
			for ; j < len(s2); j++ {
				if s2[j] == '(' {
					depth++
				} else if s2[j] == ')' {
					depth--
					if depth == 0 {
						break
					}
				}
			}
			t = &LType{kind: "void"}
			s = s2[j+1:]
			continue
		}
		break
	}
	return t, s
}

var attrWords = map[string]bool{"noundef": true, "nocapture": true, "readonly": true, "writeonly": true, "nonnull": true, "noalias": true, "signext": true, "zeroext": true, "immarg": true, "readnone": true, "returned": true}

// splitTop splits at commas that are not nested in brackets.
func splitTop(s string) []string {
	var out []string
	depth, start := 0, 0
	for i := 0; i < len(s); i++ {
		switch s[i] {
		case '(', '[', '{', '<':
			depth++
		case ')', ']', '}', '>':
			depth--
		case ',':
			if depth == 0 {
				out = append(out, s[start:i])
				start = i + 1
			}
		}
	}
	return append(out, s[start:])
}

func stripAttrs(s string) string {
	for {
		s = strings.TrimLeft(s, " ")
		progressed := false
		for w := range attrWords {
			if strings.HasPrefix(s, w+" ") {
				s = s[len(w)+1:]
				progressed = true
			}
		}
		if m := regexp.MustCompile(`^(align \d+|dereferenceable\(\d+\)|byval\([^)]*\))\s*`).FindString(s); m != "" {
			s = s[len(m):]
			progressed = true
		}
		if !progressed {
			return s
		}
	}
}

func ParseLL(path string) *LModule {
	data, err := os.ReadFile(path)
	if err != nil {
		panic(err)
	}
	mod := &LModule{structs: map[string]*LType{}, funcs: map[string]*LFunc{}}
	lines := strings.Split(string(data), "\n")
	meta := regexp.MustCompile(`, ![a-zA-Z.]+ ![0-9]+`)
	for i := 0; i < len(lines); i++ {
		l := lines[i]
		if strings.HasPrefix(l, "%") && strings.Contains(l, " = type ") {
			parts := strings.SplitN(l, " = type ", 2)
			if strings.HasPrefix(parts[1], "opaque") {
				continue
			}
			st, ok := mod.structs[parts[0]]
			if !ok {
				st = &LType{kind: "struct", name: parts[0]}
				mod.structs[parts[0]] = st
			}
			body, _ := mod.parseType(parts[1])
			st.fields = body.fields
			continue
		}
		if strings.HasPrefix(l, "define ") {
			m := regexp.MustCompile(`@([\w.]+)\((.*)\)[^()]*\{$`).FindStringSubmatch(l)
			if m == nil {
				panic("define: " + l)
			}
			f := &LFunc{name: m[1], bidx: map[string]int{}}
			hdr := l[len("define "):strings.Index(l, "@")]
			for _, w := range []string{"dso_local", "internal", "hidden", "noundef", "zeroext", "signext", "nonnull", "fastcc", "noalias", "available_externally", "linkonce_odr"} {
				hdr = strings.ReplaceAll(hdr, w+" ", "")
			}
			f.ret, _ = mod.parseType(hdr)
			ps := m[2]
			for strings.TrimSpace(ps) != "" {
				t, rest := mod.parseType(ps)
				rest = stripAttrs(rest)
				j := strings.IndexAny(rest, ",")
				nm := rest
				if j >= 0 {
					nm, ps = rest[:j], rest[j+1:]
				} else {
					ps = ""
				}
				f.params = append(f.params, struct {
					typ  *LType
					name string
				}{t, strings.TrimSpace(nm)})
			}
			// the unnamed entry block is numbered after the (unnamed) parameters
			cur := &LBlock{name: strconv.Itoa(len(f.params))}
			first := true
			for i++; i < len(lines) && lines[i] != "}"; i++ {
				ln := meta.ReplaceAllString(lines[i], "")
				if k := strings.Index(ln, " ; preds"); k >= 0 {
					ln = ln[:k]
				}
				ln = strings.TrimRight(ln, " ")
				if ln == "" {
					continue
				}
				if !strings.HasPrefix(ln, " ") && strings.HasSuffix(strings.Fields(ln)[0], ":") {
					nm := strings.TrimSuffix(strings.Fields(ln)[0], ":")
					if first && len(cur.instrs) == 0 {
						cur.name = nm
					} else {
						f.bidx[cur.name] = len(f.blocks)
						f.blocks = append(f.blocks, cur)
						cur = &LBlock{name: nm}
					}
					first = false
					continue
				}
				first = false
				ln = strings.TrimSpace(ln)
				if strings.HasPrefix(ln, "switch ") && !strings.Contains(ln, "]") {
					for i+1 < len(lines) {
						i++
						nx := strings.TrimSpace(meta.ReplaceAllString(lines[i], ""))
						ln += " " + nx
						if strings.Contains(nx, "]") {
							break
						}
					}
				}
				in := LInstr{text: ln}
				if strings.HasPrefix(ln, "%") && strings.Contains(ln, " = ") {
					p := strings.SplitN(ln, " = ", 2)
					in.res, ln = p[0], p[1]
				}
				in.op = strings.Fields(ln)[0]
				if in.op == "tail" || in.op == "notail" || in.op == "musttail" {
					ln = strings.TrimPrefix(ln, in.op+" ")
					in.op = "call"
				}
				in.text = ln
				cur.instrs = append(cur.instrs, in)
			}
			f.bidx[cur.name] = len(f.blocks)
			f.blocks = append(f.blocks, cur)
			mod.funcs[f.name] = f
		}
	}
	return mod
}

// ---------- memory ----------

type LObj struct {
	base  int // pseudo address (distinct objects never compare equal as integers)
	cells map[int]lcell
	size  int
	freed bool
}

type lcell struct {
	v    interface{} // Int or LPtr
	size int
}

type LPtr struct {
	obj *LObj
	off int
}

func newObj(size int) *LObj {
	return &LObj{cells: map[int]lcell{}, size: size}
}

func (m *Machine) cpanic(kind, msg string) {
	panic(targetPanic{kind: kind, msg: "C: " + msg, fn: "C:" + m.cfn, pos: "c/record.c"})
}

func (m *Machine) lstore(p LPtr, v interface{}, size int) {
	if p.obj == nil {
		m.cpanic("nil", "store through NULL")
	}
	if p.off < 0 || p.off+size > p.obj.size {
		m.cpanic("index", fmt.Sprintf("out-of-bounds store (off %d size %d, obj size %d)", p.off, size, p.obj.size))
	}
	for k := p.off; k < p.off+size; k++ {
		delete(p.obj.cells, k)
	}
	if iv, ok := v.(Int); ok && size > 1 { // split into bytes, little endian
		for k := 0; k < size; k++ {
			if iv.t == nil {
				p.obj.cells[p.off+k] = lcell{cInt(iv.c>>(8*uint(k)), 8, false), 1}
			} else {
				p.obj.cells[p.off+k] = lcell{m.mk(m.ctx.Extract(iv.t, 8*k+7, 8*k), false), 1}
			}
		}
		return
	}
	p.obj.cells[p.off] = lcell{v, size}
}

func (m *Machine) lload(p LPtr, size int, wantPtr bool) interface{} {
	if p.obj == nil {
		m.cpanic("nil", "load through NULL")
	}
	if p.off < 0 || p.off+size > p.obj.size {
		m.cpanic("index", fmt.Sprintf("out-of-bounds load (off %d size %d, obj size %d)", p.off, size, p.obj.size))
	}
	if c, ok := p.obj.cells[p.off]; ok && c.size == size {
		return c.v
	}
	if wantPtr {
		panic("C: pointer load from non-pointer cell")
	}
	var t *Term
	for k := size - 1; k >= 0; k-- {
		c, ok := p.obj.cells[p.off+k]
		if !ok || c.size != 1 {
			m.cpanic("index", "read of uninitialised memory")
		}
		bi, isInt := c.v.(Int)
		if !isInt {
			m.cpanic("index", "integer load from a pointer cell")
		}
		b := m.term(bi)
		if t == nil {
			t = b
		} else {
			t = m.ctx.Concat(t, b)
		}
	}
	return m.mk(t, false)
}

// ---------- executor ----------

var (
	reOperand = regexp.MustCompile(`^(%[\w.]+|-?\d+|null|true|false|undef)`)
)

type lframe struct {
	env  map[string]interface{}
	prev string
}

func (m *Machine) lval(fr *lframe, t *LType, tok string) interface{} {
	tok = strings.TrimSpace(tok)
	switch {
	case strings.HasPrefix(tok, "%"):
		v, ok := fr.env[tok]
		if !ok {
			panic("C: unbound " + tok)
		}
		return v
	case tok == "null":
		return LPtr{}
	case strings.HasPrefix(tok, "getelementptr") || strings.HasPrefix(tok, "bitcast") || strings.HasPrefix(tok, "@"):
		// address of a global (string literals of assert messages, vtables):
		// an opaque zero-filled object; the kernels compared never read them
		o := &LObj{base: 1 << 20, cells: map[int]lcell{}, size: 64}
		for k := 0; k < 64; k++ {
			o.cells[k] = lcell{cInt(0, 8, false), 1}
		}
		return LPtr{o, 0}
	case tok == "true":
		return cInt(1, 1, false)
	case tok == "false":
		return cInt(0, 1, false)
	case tok == "undef":
		return cInt(0, t.bits, false)
	}
	n, err := strconv.ParseInt(tok, 10, 64)
	if err != nil {
		u, err2 := strconv.ParseUint(tok, 10, 64)
		if err2 != nil {
			panic("C: operand " + tok)
		}
		n = int64(u)
	}
	return cInt(uint64(n), t.bits, false)
}

func (m *Machine) boolOf(v interface{}) *Term { // i1 -> Bool
	return m.ctx.Cmp(opEq, m.term(v.(Int)), m.ctx.BV(1, 1))
}

func (m *Machine) i1(b *Term) Int { return m.mk(m.ctx.Ite(b, m.ctx.BV(1, 1), m.ctx.BV(1, 0)), false) }

func (m *Machine) cConc(v interface{}, what string) int {
	i := v.(Int)
	if i.t == nil {
		return int(sext64(i.c, int(i.w)))
	}
	return int(sext64(m.concretize(i.t, what), int(i.w)))
}

func (m *Machine) CallC(mod *LModule, name string, args []interface{}) interface{} {
	f := mod.funcs[name]
	if f == nil {
		unsupported("C: no function %s in the compiled kernels", name)
	}
	m.funcs["C:"+name] = true
	prevFn := m.cfn
	m.cfn = name
	defer func() { m.cfn = prevFn }()
	fr := &lframe{env: map[string]interface{}{}}
	for i, p := range f.params {
		fr.env[p.name] = args[i]
	}
	b := f.blocks[0]
	for {
		var next string
		for _, in := range b.instrs {
			m.steps++
			if m.steps > m.eng.maxSteps {
				panic(pathAbort{"cut: step budget"})
			}
			s := in.text
			switch in.op {
			case "alloca":
				t, _ := mod.parseType(strings.TrimPrefix(s, "alloca "))
				fr.env[in.res] = LPtr{newObj(t.size()), 0}
			case "getelementptr":
				s = strings.TrimPrefix(s, "getelementptr ")
				s = strings.TrimPrefix(s, "inbounds ")
				base, rest := mod.parseType(s)
				rest = strings.TrimLeft(rest, ", ")
				_, rest = mod.parseType(rest) // pointer type
				ops := strings.Split(rest, ",")
				p := m.lval(fr, nil, ops[0]).(LPtr)
				cur := base
				for k, o := range ops[1:] {
					it, tok := mod.parseType(o)
					idx := m.cConc(m.lval(fr, it, tok), "gep index")
					if k == 0 {
						p.off += idx * cur.size()
						continue
					}
					switch cur.kind {
					case "struct":
						p.off += cur.fieldOff(idx)
						cur = cur.fields[idx]
					case "array":
						p.off += idx * cur.elem.size()
						cur = cur.elem
					default:
						panic("gep into " + cur.kind)
					}
				}
				fr.env[in.res] = p
			case "load":
				s = strings.TrimPrefix(s, "load ")
				t, rest := mod.parseType(s)
				rest = strings.TrimLeft(rest, ", ")
				_, tok := mod.parseType(rest)
				tok = strings.Split(tok, ",")[0]
				p := m.lval(fr, nil, tok).(LPtr)
				fr.env[in.res] = m.lload(p, t.size(), t.kind == "ptr")
			case "store":
				s = strings.TrimPrefix(s, "store ")
				t, rest := mod.parseType(s)
				parts := strings.SplitN(rest, ",", 3)
				v := m.lval(fr, t, parts[0])
				_, ptok := mod.parseType(parts[1])
				p := m.lval(fr, nil, ptok).(LPtr)
				m.lstore(p, v, t.size())
			case "trunc", "zext", "sext", "bitcast", "ptrtoint", "inttoptr":
				s = strings.TrimPrefix(s, in.op+" ")
				ft, rest := mod.parseType(s)
				k := strings.Index(rest, " to ")
				v := m.lval(fr, ft, rest[:k])
				tt, _ := mod.parseType(rest[k+4:])
				switch in.op {
				case "bitcast":
					fr.env[in.res] = v
				case "trunc", "zext":
					fr.env[in.res] = m.mk(m.ctx.Resize(m.term(v.(Int)), tt.bits, false), false)
				case "sext":
					fr.env[in.res] = m.mk(m.ctx.Resize(m.term(v.(Int)), tt.bits, true), false)
				case "ptrtoint":
					// only used for pointer differences / null tests of one object
					pv := v.(LPtr)
					if pv.obj == nil {
						fr.env[in.res] = cInt(0, tt.bits, false)
					} else {
						fr.env[in.res] = cInt(uint64(pv.obj.base+pv.off), tt.bits, false)
					}
				default:
					panic("C: " + in.op)
				}
			case "add", "sub", "mul", "and", "or", "xor", "shl", "lshr", "ashr", "udiv", "urem":
				s = strings.TrimPrefix(s, in.op+" ")
				for _, fl := range []string{"nuw ", "nsw ", "exact "} {
					s = strings.ReplaceAll(s, fl, "")
				}
				t, rest := mod.parseType(s)
				ops := strings.Split(rest, ",")
				x, y := m.lval(fr, t, ops[0]).(Int), m.lval(fr, t, ops[1]).(Int)
				op, ok := map[string]Op{"add": opAdd, "sub": opSub, "mul": opMul, "and": opBAnd, "or": opBOr, "xor": opBXor, "shl": opShl, "lshr": opLshr, "ashr": opAshr, "udiv": opUdiv, "urem": opUrem}[in.op]
				if !ok {
					panic("C: " + in.op)
				}
				if (in.op == "udiv" || in.op == "urem") && !(y.t == nil && y.c != 0) {
					panic(pathAbort{"cut: C division by a symbolic value"})
				}
				if x.t == nil && y.t == nil {
					r, _ := foldBin(op, t.bits, x.c, y.c)
					fr.env[in.res] = cInt(r, t.bits, false)
				} else if op == opUdiv || op == opUrem {
					fr.env[in.res] = m.mk(m.ctx.intern(&Term{op: op, args: []*Term{m.term(x), m.term(y)}, w: t.bits}), false)
				} else {
					fr.env[in.res] = m.mk(m.ctx.Bin(op, m.term(x), m.term(y)), false)
				}
			case "icmp":
				f := strings.Fields(s)
				pred := f[1]
				s = strings.Join(f[2:], " ")
				t, rest := mod.parseType(s)
				ops := strings.Split(rest, ",")
				xv, yv := m.lval(fr, t, ops[0]), m.lval(fr, t, ops[1])
				if t.kind == "ptr" {
					px, py := xv.(LPtr), yv.(LPtr)
					eq := px.obj == py.obj && px.off == py.off
					if pred == "ne" {
						eq = !eq
					}
					fr.env[in.res] = m.i1(m.ctx.Bool(eq))
					break
				}
				x, y := m.term(xv.(Int)), m.term(yv.(Int))
				c := m.ctx
				var r *Term
				switch pred {
				case "eq":
					r = c.Cmp(opEq, x, y)
				case "ne":
					r = c.Not(c.Cmp(opEq, x, y))
				case "ult":
					r = c.Cmp(opUlt, x, y)
				case "ule":
					r = c.Cmp(opUle, x, y)
				case "ugt":
					r = c.Cmp(opUlt, y, x)
				case "uge":
					r = c.Cmp(opUle, y, x)
				case "slt":
					r = c.Cmp(opSlt, x, y)
				case "sle":
					r = c.Cmp(opSle, x, y)
				case "sgt":
					r = c.Cmp(opSlt, y, x)
				case "sge":
					r = c.Cmp(opSle, y, x)
				default:
					panic("C: icmp " + pred)
				}
				fr.env[in.res] = m.i1(r)
			case "select":
				s = strings.TrimPrefix(s, "select ")
				parts := strings.SplitN(s, ",", 3)
				ct, ctok := mod.parseType(parts[0])
				c := m.lval(fr, ct, ctok)
				t1, tok1 := mod.parseType(parts[1])
				t2, tok2 := mod.parseType(parts[2])
				a, b2 := m.lval(fr, t1, tok1), m.lval(fr, t2, tok2)
				if ai, ok := a.(Int); ok {
					fr.env[in.res] = m.mk(m.ctx.Ite(m.boolOf(c), m.term(ai), m.term(b2.(Int))), false)
				} else if m.branch(m.boolOf(c)) {
					fr.env[in.res] = a
				} else {
					fr.env[in.res] = b2
				}
			case "phi":
				s = strings.TrimPrefix(s, "phi ")
				t, rest := mod.parseType(s)
				found := false
				for _, mm := range regexp.MustCompile(`\[\s*([^,\]]+),\s*%([\w.]+)\s*\]`).FindAllStringSubmatch(rest, -1) {
					if mm[2] == fr.prev {
						fr.env[in.res] = m.lval(fr, t, mm[1])
						found = true
					}
				}
				if !found {
					unsupported("C: phi without edge from %s: %s", fr.prev, in.text)
				}
			case "br":
				f := strings.Fields(strings.ReplaceAll(s, ",", " "))
				if f[1] == "label" {
					next = strings.TrimPrefix(f[2], "%")
				} else {
					c := m.lval(fr, &LType{kind: "int", bits: 1}, f[2])
					if m.branch(m.boolOf(c)) {
						next = strings.TrimPrefix(f[4], "%")
					} else {
						next = strings.TrimPrefix(f[6], "%")
					}
				}
			case "switch":
				// switch iN %v, label %default [ iN c1, label %l1 ... ]
				hd := s[len("switch "):strings.Index(s, "[")]
				t, rest := mod.parseType(hd)
				parts := strings.Split(rest, ",")
				v := m.lval(fr, t, parts[0]).(Int)
				next = strings.TrimPrefix(strings.TrimSpace(strings.TrimPrefix(strings.TrimSpace(parts[1]), "label")), "%")
				body := s[strings.Index(s, "[")+1 : strings.LastIndex(s, "]")]
				for _, mm := range regexp.MustCompile(`i\d+\s+(-?\d+),\s*label\s+%([\w.]+)`).FindAllStringSubmatch(body, -1) {
					cv, _ := strconv.ParseInt(mm[1], 10, 64)
					eq := m.ctx.Cmp(opEq, m.term(v), m.ctx.BV(t.bits, uint64(cv)))
					if m.branch(eq) {
						next = mm[2]
						break
					}
				}
			case "ret":
				s = strings.TrimPrefix(s, "ret ")
				if strings.HasPrefix(s, "void") {
					return nil
				}
				t, tok := mod.parseType(s)
				return m.lval(fr, t, tok)
			case "call":
				mm := regexp.MustCompile(`@([\w.]+)\((.*)\)[^()]*$`).FindStringSubmatch(s)
				if mm == nil {
					panic("C: indirect call " + s)
				}
				var cargs []interface{}
				for _, a := range splitTop(mm[2]) {
					if strings.TrimSpace(a) == "" {
						continue
					}
					t, rest := mod.parseType(a)
					cargs = append(cargs, m.lval(fr, t, stripAttrs(rest)))
				}
				var r interface{}
				switch {
				case strings.HasPrefix(mm[1], "llvm.lifetime"):
				case strings.HasPrefix(mm[1], "llvm.memset"):
					p := cargs[0].(LPtr)
					n := m.cConc(cargs[2], "memset size")
					for k := 0; k < n; k++ {
						m.lstore(LPtr{p.obj, p.off + k}, cargs[1].(Int), 1)
					}
				case strings.HasPrefix(mm[1], "llvm.memcpy"), strings.HasPrefix(mm[1], "llvm.memmove"), mm[1] == "memcpy", mm[1] == "memmove":
					d, sp := cargs[0].(LPtr), cargs[1].(LPtr)
					n := m.cConc(cargs[2], "memcpy size")
					if n > 0 && sp.obj == d.obj && d.off > sp.off && d.off < sp.off+n {
						for k := n - 1; k >= 0; k-- {
							m.lstore(LPtr{d.obj, d.off + k}, m.lload(LPtr{sp.obj, sp.off + k}, 1, false), 1)
						}
					} else {
						for k := 0; k < n; k++ {
							m.lstore(LPtr{d.obj, d.off + k}, m.lload(LPtr{sp.obj, sp.off + k}, 1, false), 1)
						}
					}
					r = d
				case mm[1] == "abort" || mm[1] == "__assert_fail":
					m.cpanic("explicit", "abort/assert")
				default:
					if lr, ok := m.libc(mm[1], cargs); ok {
						r = lr
					} else {
						r = m.CallC(mod, mm[1], cargs)
					}
				}
				if in.res != "" {
					fr.env[in.res] = r
				}
			case "unreachable":
				m.cpanic("explicit", "unreachable")
			default:
				unsupported("C: unsupported instruction: %s", in.text)
			}
		}
		fr.prev = b.name
		b = f.blocks[f.bidx[next]]
	}
}

// libc models the few library calls the kernels make.
func (m *Machine) libc(name string, args []interface{}) (interface{}, bool) {
	switch name {
	case "malloc", "reftable_malloc":
		n := m.cConc(args[0], "malloc size")
		if n < 0 || n > 1<<24 {
			m.cpanic("alloc", "malloc of an input-driven size")
		}
		m.cheap += 1 << 26
		return LPtr{&LObj{base: m.cheap, cells: map[int]lcell{}, size: n}, 0}, true
	case "calloc", "reftable_calloc":
		n := m.cConc(args[0], "calloc size")
		if len(args) > 1 && name == "calloc" {
			n *= m.cConc(args[1], "calloc size")
		}
		if n < 0 || n > 1<<24 {
			m.cpanic("alloc", "calloc of an input-driven size")
		}
		m.cheap += 1 << 26
		o := &LObj{base: m.cheap, cells: map[int]lcell{}, size: n}
		for k := 0; k < n; k++ {
			o.cells[k] = lcell{cInt(0, 8, false), 1}
		}
		return LPtr{o, 0}, true
	case "realloc", "reftable_realloc":
		p := args[0].(LPtr)
		n := m.cConc(args[1], "realloc size")
		if n < 0 || n > 1<<24 {
			m.cpanic("alloc", "realloc of an input-driven size")
		}
		m.cheap += 1 << 26
		o := &LObj{base: m.cheap, cells: map[int]lcell{}, size: n}
		if p.obj != nil {
			for k, c := range p.obj.cells {
				if k+c.size <= n {
					o.cells[k] = c
				}
			}
		}
		return LPtr{o, 0}, true
	case "free", "reftable_free":
		return nil, true
	case "strlen":
		p := args[0].(LPtr)
		for k := 0; ; k++ {
			c := m.lload(LPtr{p.obj, p.off + k}, 1, false).(Int)
			if c.t == nil {
				if c.c == 0 {
					return cInt(uint64(k), 64, false), true
				}
				continue
			}
			if m.branch(m.ctx.Cmp(opEq, c.t, m.ctx.BV(8, 0))) {
				return cInt(uint64(k), 64, false), true
			}
		}
	case "memcmp":
		a, b := args[0].(LPtr), args[1].(LPtr)
		n := m.cConc(args[2], "memcmp size")
		for k := 0; k < n; k++ {
			x := m.lload(LPtr{a.obj, a.off + k}, 1, false).(Int)
			y := m.lload(LPtr{b.obj, b.off + k}, 1, false).(Int)
			if m.branch(m.ctx.Not(m.ctx.Cmp(opEq, m.term(x), m.term(y)))) {
				if m.branch(m.ctx.Cmp(opUlt, m.term(x), m.term(y))) {
					return cInt(^uint64(0), 32, false), true
				}
				return cInt(1, 32, false), true
			}
		}
		return cInt(0, 32, false), true
	}
	return nil, false
}

var _ = token.NoPos
