package main

import (
	"fmt"
	"path/filepath"
	"sort"
	"strings"
)

// ---------- model filesystem (DESIGN.md 3.3) ----------
//
// One directory namespace; inodes survive unlinking while a descriptor is
// open; O_CREATE|O_EXCL honours the flags as passed by the code; Rename
// replaces atomically.  No I/O faults other than exist / not-exist / closed.

type inode struct {
	id      int
	data    *Array
	n       int
	creator int // process that created the current directory entry
}

type fileObj struct {
	ino    *inode
	name   string
	closed bool
	off    int
	proc   int
	frozen bool
}

type fileInfo struct {
	name string
	size int
}

type commitRec struct {
	proc     int
	old, new []string
}

type FS struct {
	dir      map[string]*inode
	inoCnt   int
	tmpCnt   int
	trace    []string
	nsteps   int
	commits  []commitRec
	monitors map[string]bool
}

func newFS() *FS { return &FS{dir: map[string]*inode{}, monitors: map[string]bool{}} }

func (m *Machine) needFS() *FS {
	if m.fs == nil {
		m.fs = newFS()
	}
	return m.fs
}

// ---------- threads / scheduler (DESIGN.md 3.4) ----------

type thread struct {
	id        int
	body      *Closure
	resume    chan int // 0 run, 1 die
	done      bool
	err       interface{}
	curFn     []fnT
	crashable bool
	crashed   bool
	started   bool
}

type threadKilled struct{}

type Sched struct {
	threads  []*thread
	cur      *thread
	yield    chan *thread
	preempts int
	maxPre   int
	active   bool
	allSteps bool // preemption at every step, not only visible ones
	onlyAt   string // if set: preemption only at steps whose description contains this
	crashDone bool
}

// fileClass maps a path to a stable class name (table names contain random
// numbers); the native replay builds the same strings so traces can be compared.
func fileClass(p string) string {
	b := filepath.Base(p)
	switch {
	case b == "tables.list":
		return "list"
	case b == "tables.list.lock":
		return "list.lock"
	case strings.HasSuffix(b, ".ref.lock"):
		return "table.lock"
	case strings.HasSuffix(b, ".ref"):
		return "table"
	case strings.HasSuffix(b, ".reftmp"):
		return "tmp"
	}
	return "other"
}

func (m *Machine) curProc() int {
	if m.sched != nil && m.sched.active && m.sched.cur != nil {
		return m.sched.cur.id
	}
	return m.mainProc
}

// step is called by the running thread immediately before a filesystem
// operation.  visible steps offer a preemption; every step of a crashable
// thread offers a crash.
func (m *Machine) step(visible bool, what string) {
	fs := m.needFS()
	fs.nsteps++
	if m.quietFS {
		return
	}
	s := m.sched
	if s == nil || !s.active {
		fs.trace = append(fs.trace, fmt.Sprintf("P%d %s", m.mainProc, what))
		return
	}
	me := s.cur
	if me.crashable && !s.crashDone {
		if m.decideRec(2, "crash") == 1 {
			s.crashDone = true
			me.crashed = true
			fs.trace = append(fs.trace, fmt.Sprintf("P%d CRASH before %s", me.id, what))
			panic(threadKilled{})
		}
	}
	if (visible || s.allSteps) && (s.onlyAt == "" || strings.Contains(what, s.onlyAt)) {
		m.saveThreadCtx(me)
		s.yield <- me
		if <-me.resume == 1 {
			panic(threadKilled{})
		}
		m.loadThreadCtx(me)
	}
	fs.trace = append(fs.trace, fmt.Sprintf("P%d %s", me.id, what))
}

func (m *Machine) saveThreadCtx(t *thread) {
	t.curFn = append(t.curFn[:0], m.curFn...)
}

func (m *Machine) loadThreadCtx(t *thread) {
	m.curFn = append(m.curFn[:0], t.curFn...)
}

func (m *Machine) runThreads(maxPre int, allSteps bool) {
	s := m.sched
	if s == nil || len(s.threads) == 0 {
		return
	}
	m.needFS()
	s.active = true
	s.maxPre = maxPre
	s.allSteps = allSteps
	s.yield = make(chan *thread)
	mainFn := append([]fnT{}, m.curFn...)
	for _, t := range s.threads {
		t := t
		t.resume = make(chan int)
		go func() {
			defer func() {
				r := recover()
				if _, killed := r.(threadKilled); killed {
					r = nil
				}
				t.err = r
				t.done = true
				s.yield <- t
			}()
			if <-t.resume == 1 {
				panic(threadKilled{})
			}
			t.started = true
			m.curFn = m.curFn[:0]
			m.callClosure(t.body, nil)
		}()
	}
	defer func() {
		// kill whatever is still parked (path aborted or crash scenario)
		for _, t := range s.threads {
			if !t.done {
				t.resume <- 1
				for {
					d := <-s.yield
					if d == t {
						break
					}
				}
			}
		}
		s.active = false
		s.cur = nil
		m.curFn = append(m.curFn[:0], mainFn...)
	}()
	for {
		var alive []*thread
		for _, t := range s.threads {
			if !t.done {
				alive = append(alive, t)
			}
		}
		if len(alive) == 0 {
			break
		}
		// choice 0 = keep running the current thread if it is alive
		var order []*thread
		curAlive := s.cur != nil && !s.cur.done
		if curAlive {
			order = append(order, s.cur)
		}
		for _, t := range alive {
			if t != s.cur {
				order = append(order, t)
			}
		}
		n := len(order)
		if curAlive && s.preempts >= s.maxPre {
			n = 1
		}
		k := m.decideRec(n, "sched")
		if curAlive && k > 0 {
			s.preempts++
			m.fs.trace = append(m.fs.trace, fmt.Sprintf("-- preempt P%d -> P%d", s.cur.id, order[k].id))
		}
		s.cur = order[k]
		s.cur.resume <- 0
		t := <-s.yield
		if t.done && t.err != nil {
			panic(t.err)
		}
	}
	m.lastCrashed = s.crashDone
	s.threads = nil
	s.preempts = 0
	s.crashDone = false
}

// decideRec is decide for scheduler/crash choices: the outcome also goes into
// the replay vector so that the native scheduler takes the same decisions.
func (m *Machine) decideRec(n int, kind string) int {
	if n <= 1 {
		return 0
	}
	k := m.decide(n)
	m.inputs = append(m.inputs, nondetRec{kind: kind, val: int64(k)})
	return k
}

// ---------- monitors ----------

func (m *Machine) listNames() ([]string, bool) {
	ino := m.fs.dir[m.fs.listPath()]
	if ino == nil {
		return nil, true
	}
	if ino.n > 0 && ino.data.hasSym(0, ino.n) {
		return nil, false
	}
	var out []string
	for _, l := range strings.Split(string(ino.data.b[:ino.n]), "\n") {
		if l != "" {
			out = append(out, l)
		}
	}
	return out, true
}

func (fs *FS) listPath() string { return "/d/tables.list" }

func be64(b []byte) uint64 {
	var v uint64
	for _, x := range b[:8] {
		v = v<<8 | uint64(x)
	}
	return v
}

// monitorList is the C05 list-integrity monitor: every name in tables.list
// exists, is a complete table (magic, footer repeats the header) and the
// header update-index ranges strictly increase.
func (m *Machine) monitorList(after string) {
	fs := m.fs
	if !fs.monitors["list"] {
		return
	}
	names, ok := m.listNames()
	if !ok {
		return
	}
	var lastMax uint64
	for i, n := range names {
		ino := fs.dir["/d/"+n]
		if ino == nil {
			m.monitorViolation("list-names-missing-table", "tables.list names "+n+" which does not exist, after "+after)
			return
		}
		if ino.n < 24+68 || ino.data.hasSym(0, 24) {
			if ino.n < 24+68 {
				m.monitorViolation("list-names-incomplete-table", fmt.Sprintf("tables.list names %s of %d bytes, after %s", n, ino.n, after))
				return
			}
			continue
		}
		b := ino.data.b[:ino.n]
		hs, fsz := 24, 68
		if b[4] == 2 {
			hs, fsz = 28, 72
		}
		if string(b[:4]) != "REFT" || ino.n < hs+fsz || ino.data.hasSym(ino.n-fsz, hs) || string(b[ino.n-fsz:ino.n-fsz+hs]) != string(b[:hs]) {
			m.monitorViolation("list-names-incomplete-table", "tables.list names "+n+" which is not a complete table, after "+after)
			return
		}
		mn, mx := be64(b[8:]), be64(b[16:])
		if i > 0 && mn <= lastMax {
			m.monitorViolation("list-order", fmt.Sprintf("tables.list names %s with min update index %d <= previous max %d, after %s", n, mn, lastMax, after))
			return
		}
		if mx < mn {
			m.monitorViolation("list-range-inverted", fmt.Sprintf("tables.list names %s with update-index range [%d, %d], after %s", n, mn, mx, after))
			return
		}
		lastMax = mx
	}
}

func (m *Machine) monitorViolation(label, msg string) {
	m.violate(Violation{Kind: "monitor", Label: label, Msg: msg, Trace: append([]string{}, m.fs.trace...)})
}

// lockCheck is the C08 lock-ownership monitor.
func (m *Machine) lockCheck(path string, op string) {
	if !m.fs.monitors["locks"] || !strings.HasSuffix(path, ".lock") {
		return
	}
	ino := m.fs.dir[path]
	if ino != nil && ino.creator != m.curProc() {
		lk := "table.lock"
		if filepath.Base(path) == "tables.list.lock" {
			lk = "tables.list.lock"
		}
		m.monitorViolation("lock-not-owner-"+op+"-"+lk,
			fmt.Sprintf("P%d %ss %s created by P%d", m.curProc(), op, filepath.Base(path), ino.creator))
	}
}

func (m *Machine) dirNames() []string {
	var names []string
	for p := range m.fs.dir {
		if filepath.Dir(p) == "/d" {
			names = append(names, filepath.Base(p))
		}
	}
	sort.Strings(names)
	return names
}

// ---------- intrinsics ----------

func (m *Machine) fsIntrinsic(name string, args []Val) (Val, bool) {
	switch name {
	case "os.IsExist", "os.IsNotExist":
		want := map[string]string{"os.IsExist": "exist", "os.IsNotExist": "notexist"}[name]
		if ifc, ok := args[0].(Iface); ok {
			if e, ok := ifc.v.(*nativeErr); ok {
				return cBool(e.kind == want), true
			}
			// the sentinel values themselves
			sent := map[string]string{"os.IsExist": "ErrExist", "os.IsNotExist": "ErrNotExist"}[name]
			if m.identEq(args[0], m.fsSentinel(sent)) {
				return cBool(true), true
			}
		}
		return cBool(false), true
	case "os.OpenFile":
		fs := m.needFS()
		p := m.goString(args[0], name)
		flag := m.cInt(args[1], "open flags")
		base := filepath.Base(p)
		m.step(true, fmt.Sprintf("openfile(%#x) %s", flag, fileClass(p)))
		const oCREATE, oEXCL, oTRUNC = 0x40, 0x80, 0x200
		ino := fs.dir[p]
		if ino != nil && flag&oEXCL != 0 && flag&oCREATE != 0 {
			return Tuple{nil, mkErr("exist", "open "+p+": file exists")}, true
		}
		if ino == nil {
			if flag&oCREATE == 0 {
				return Tuple{nil, mkErr("notexist", "open "+p+": no such file or directory")}, true
			}
			fs.inoCnt++
			ino = &inode{id: fs.inoCnt, creator: m.curProc(), data: newByteArray(0)}
			fs.dir[p] = ino
		} else if flag&oCREATE != 0 && strings.HasSuffix(p, ".lock") && fs.monitors["locks"] {
			m.monitorViolation("lock-overwritten", fmt.Sprintf("P%d opened existing %s without O_EXCL (created by P%d)", m.curProc(), base, ino.creator))
		}
		if flag&oTRUNC != 0 {
			ino.data, ino.n = newByteArray(0), 0
		}
		m.monitorList("openfile " + base)
		return Tuple{&fileObj{ino: ino, name: p, proc: m.curProc()}, nil}, true
	case "os.Open":
		fs := m.needFS()
		p := m.goString(args[0], name)
		m.step(true, "open "+fileClass(p))
		if m.faultOpen > 0 {
			m.faultOpen--
			if m.faultOpen == 0 {
				return Tuple{nil, mkErr("emfile", "open "+p+": too many open files")}, true
			}
		}
		ino := fs.dir[p]
		if ino == nil {
			return Tuple{nil, mkErr("notexist", "open "+p+": no such file or directory")}, true
		}
		return Tuple{&fileObj{ino: ino, name: p, proc: m.curProc()}, nil}, true
	case "os.Rename":
		fs := m.needFS()
		from, to := m.goString(args[0], name), m.goString(args[1], name)
		m.step(true, "rename "+fileClass(from)+" "+fileClass(to))
		ino := fs.dir[from]
		if ino == nil {
			return mkErr("notexist", "rename "+from+": no such file or directory"), true
		}
		m.lockCheck(from, "rename")
		if to == fs.listPath() {
			old, _ := m.listNames()
			delete(fs.dir, from)
			fs.dir[to] = ino
			nw, _ := m.listNames()
			fs.commits = append(fs.commits, commitRec{m.curProc(), old, nw})
			if fs.monitors["locks"] {
				// a commit that drops tables from the list (a compaction) must hold their locks
				kept := map[string]bool{}
				for _, n := range nw {
					kept[n] = true
				}
				for _, n := range old {
					if kept[n] {
						continue
					}
					lk := fs.dir[filepath.Join(filepath.Dir(to), n+".lock")]
					if lk == nil || lk.creator != m.curProc() {
						m.monitorViolation("commit-drops-table-without-its-lock", fmt.Sprintf("P%d removes %s from tables.list without holding %s.lock", m.curProc(), n, n))
					}
				}
			}
		} else {
			delete(fs.dir, from)
			fs.dir[to] = ino
		}
		m.monitorList("rename " + filepath.Base(from) + " -> " + filepath.Base(to))
		return nil, true
	case "os.Remove":
		fs := m.needFS()
		p := m.goString(args[0], name)
		base := filepath.Base(p)
		m.step(!strings.HasSuffix(p, ".reftmp"), "remove "+fileClass(p))
		if fs.dir[p] == nil {
			return mkErr("notexist", "remove "+p+": no such file or directory"), true
		}
		m.lockCheck(p, "remove")
		delete(fs.dir, p)
		m.monitorList("remove " + base)
		return nil, true
	case "io/ioutil.ReadFile", "os.ReadFile":
		fs := m.needFS()
		p := m.goString(args[0], name)
		m.step(true, "readfile "+fileClass(p))
		if m.faultRead > 0 {
			m.faultRead--
			if m.faultRead == 0 {
				return Tuple{Slice{isNil: true}, mkErr("eio", "read "+p+": input/output error")}, true
			}
		}
		ino := fs.dir[p]
		if ino == nil {
			return Tuple{Slice{isNil: true}, mkErr("notexist", "open "+p+": no such file or directory")}, true
		}
		a := newByteArray(ino.n)
		copyRange(a, 0, ino.data, 0, ino.n)
		return Tuple{Slice{arr: a, len: ino.n, cap: ino.n}, nil}, true
	case "io/ioutil.TempFile", "os.CreateTemp":
		fs := m.needFS()
		dir, pat := m.goString(args[0], name), m.goString(args[1], name)
		m.step(false, "tempfile")
		fs.tmpCnt++
		nm := filepath.Join(dir, strings.Replace(pat, "*", fmt.Sprintf("%09d", fs.tmpCnt), 1))
		fs.inoCnt++
		ino := &inode{id: fs.inoCnt, creator: m.curProc(), data: newByteArray(0)}
		fs.dir[nm] = ino
		return Tuple{&fileObj{ino: ino, name: nm, proc: m.curProc()}, nil}, true
	case "io/ioutil.ReadDir":
		fs := m.needFS()
		dir := m.goString(args[0], name)
		m.step(true, "readdir")
		var names []string
		for p := range fs.dir {
			if filepath.Dir(p) == dir {
				names = append(names, filepath.Base(p))
			}
		}
		sort.Strings(names)
		cells := make([]Val, len(names))
		for i, n := range names {
			cells[i] = Iface{nativeInfoType, &fileInfo{name: n, size: fs.dir[filepath.Join(dir, n)].n}}
		}
		return Tuple{Slice{arr: &Array{cells: cells}, len: len(cells), cap: len(cells)}, nil}, true
	case "(*os.File).Write":
		f, _ := args[0].(*fileObj)
		if f == nil {
			return Tuple{goInt(0), m.fsSentinel("ErrInvalid")}, true
		}
		m.step(false, "write "+fileClass(f.name))
		if f.closed {
			return Tuple{goInt(0), mkErr("closed", "write "+f.name+": file already closed")}, true
		}
		if f.frozen {
			m.sharedWrite(f, m.callPos)
		}
		arr, off, n := m.byteCells(args[1])
		ino := f.ino
		if f.off+n > ino.n {
			na := newByteArray(f.off + n)
			copyRange(na, 0, ino.data, 0, ino.n)
			ino.data, ino.n = na, f.off+n
		}
		copyRange(ino.data, f.off, arr, off, n)
		f.off += n
		return Tuple{goInt(n), nil}, true
	case "(*os.File).Close":
		f, _ := args[0].(*fileObj)
		if f == nil {
			return m.fsSentinel("ErrInvalid"), true
		}
		m.step(false, "close "+fileClass(f.name))
		if f.closed {
			return mkErr("closed", "close "+f.name+": file already closed"), true
		}
		if f.frozen {
			m.sharedWrite(f, m.callPos)
		}
		f.closed = true
		return nil, true
	case "(*os.File).Sync":
		f, _ := args[0].(*fileObj)
		if f == nil {
			return m.fsSentinel("ErrInvalid"), true
		}
		m.step(false, "sync "+fileClass(f.name))
		if f.closed {
			return mkErr("closed", "sync "+f.name+": file already closed"), true
		}
		return nil, true // no power loss in the model: nothing to do
	case "(*os.File).Name":
		return mkStr(args[0].(*fileObj).name), true
	case "(*os.File).Stat":
		f := args[0].(*fileObj)
		m.step(false, "stat "+fileClass(f.name))
		if f.closed {
			return Tuple{nil, mkErr("closed", "stat "+f.name+": file already closed")}, true
		}
		return Tuple{Iface{nativeInfoType, &fileInfo{name: filepath.Base(f.name), size: f.ino.n}}, nil}, true
	case "(*os.File).ReadAt":
		f := args[0].(*fileObj)
		m.step(false, "readat "+fileClass(f.name))
		if f.closed {
			return Tuple{goInt(0), mkErr("closed", "read "+f.name+": file already closed")}, true
		}
		dst := args[1].(Slice)
		off := m.cInt(args[2], "ReadAt offset")
		if off < 0 {
			return Tuple{goInt(0), mkErr("invalid", "negative offset")}, true
		}
		n := 0
		if off < f.ino.n {
			n = f.ino.n - off
			if dst.len < n {
				n = dst.len
			}
			copyRange(dst.arr, dst.off, f.ino.data, off, n)
		}
		var err Val
		if n < dst.len {
			err = m.ioErr("EOF")
		}
		return Tuple{goInt(n), err}, true
	case "(*os.File).Seek":
		// the descriptor's offset is state shared by everybody using the descriptor
		f := args[0].(*fileObj)
		if f.frozen {
			m.sharedWrite(f, m.callPos)
		}
		m.step(false, "seek "+fileClass(f.name))
		if f.closed {
			return Tuple{cInt(0, 64, true), mkErr("closed", "seek "+f.name+": file already closed")}, true
		}
		off := m.cInt(args[1], "Seek offset")
		switch m.cInt(args[2], "Seek whence") {
		case 0:
			f.off = off
		case 1:
			f.off += off
		case 2:
			f.off = f.ino.n + off
		}
		if f.off < 0 {
			f.off = 0
			return Tuple{cInt(0, 64, true), mkErr("invalid", "seek: negative position")}, true
		}
		return Tuple{cInt(uint64(f.off), 64, true), nil}, true
	case "(*os.File).Read":
		f := args[0].(*fileObj)
		if f.frozen {
			m.sharedWrite(f, m.callPos)
		}
		m.step(false, "read "+fileClass(f.name))
		if f.closed {
			return Tuple{goInt(0), mkErr("closed", "read "+f.name+": file already closed")}, true
		}
		dst := args[1].(Slice)
		n := 0
		if f.off < f.ino.n {
			n = f.ino.n - f.off
			if dst.len < n {
				n = dst.len
			}
			copyRange(dst.arr, dst.off, f.ino.data, f.off, n)
		}
		f.off += n
		if n == 0 && dst.len > 0 {
			return Tuple{goInt(0), m.ioErr("EOF")}, true
		}
		return Tuple{goInt(n), nil}, true
	case "(*os.File).WriteAt", "(*os.File).Truncate":
		f, _ := args[0].(*fileObj)
		if f != nil && f.frozen {
			m.sharedWrite(f, m.callPos)
		}
		unsupported("model filesystem: %s not modelled", name)
	}
	return nil, false
}

func (m *Machine) fsSentinel(name string) Val {
	p := m.eng.prog.ImportedPackage("io/fs")
	if p == nil {
		return mkErr("invalid", name)
	}
	g, ok := p.Members[name].(*ssaGlobal)
	if !ok {
		return mkErr("invalid", name)
	}
	return m.global(g).load()
}
