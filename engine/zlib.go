package main

import (
	"bytes"
	"compress/zlib"
	"io"
)

// zlib writer/reader models.  Contract (DESIGN.md 3.2): lossless, a reader
// consumes exactly its stream.  On concrete bytes the real zlib is used; on
// symbolic bytes a stored-block codec is used, which is what deflate emits for
// incompressible data (2-byte header, 5 bytes per 16k stored block, an empty
// final stored block, 4-byte checksum: 16 bytes of overhead for a small block).

type zwObj struct {
	dst  Val
	data *Array
	n    int
}

type zrObj struct {
	asrc *arraySrc
	tail int // bytes of the source (the Adler-32 trailer) that are consumed only by the Read that reports EOF
	src Val
	out *Array
	pos int
	n   int
}

func (z *zrObj) next(m *Machine) (Int, bool) {
	if z.asrc != nil {
		if z.asrc.pos >= z.asrc.n {
			return Int{}, false
		}
		v := z.asrc.a.get(z.asrc.pos).(Int)
		z.asrc.pos++
		return v, true
	}
	return m.readByteFrom(z.src)
}

func (m *Machine) readByteFrom(src Val) (Int, bool) {
	r := m.invoke(src, "ReadByte").(Tuple)
	if r[1] != nil {
		return Int{}, false
	}
	return r[0].(Int), true
}

type byteAdapter struct {
	z    *zrObj
	m    *Machine
	src  Val
	push []byte
	sym  bool
}

func (a *byteAdapter) ReadByte() (byte, error) {
	if len(a.push) > 0 {
		b := a.push[0]
		a.push = a.push[1:]
		return b, nil
	}
	v, ok := a.z.next(a.m)
	if !ok {
		return 0, io.EOF
	}
	if v.t != nil {
		a.sym = true
		return 0, io.ErrUnexpectedEOF
	}
	return byte(v.c), nil
}

func (a *byteAdapter) Read(p []byte) (int, error) {
	if len(p) == 0 {
		return 0, nil
	}
	b, err := a.ReadByte()
	if err != nil {
		return 0, err
	}
	p[0] = b
	return 1, nil
}

// fill decodes the whole stream eagerly; returns an error value or nil.
func (z *zrObj) fill(m *Machine) Val {
	var hdr []byte
	for i := 0; i < 3; i++ {
		v, ok := z.next(m)
		if !ok {
			return mkErr("zlib", "unexpected EOF")
		}
		if v.t != nil {
			panic(pathAbort{"cut: symbolic zlib stream header (hostile deflate streams are outside reach)"})
		}
		hdr = append(hdr, byte(v.c))
	}
	if hdr[0]&0x0f != 8 || (uint(hdr[0])<<8|uint(hdr[1]))%31 != 0 || hdr[1]&0x20 != 0 {
		return mkErr("zlib", "zlib: invalid header")
	}
	if hdr[2]&6 != 0 { // compressed block: must be fully concrete, use the real inflater
		ad := &byteAdapter{m: m, src: z.src, z: z, push: hdr}
		zr, err := zlib.NewReader(ad)
		if err != nil {
			if ad.sym {
				panic(pathAbort{"cut: symbolic byte inside a compressed deflate stream"})
			}
			return mkErr("zlib", "zlib: "+err.Error())
		}
		var out bytes.Buffer
		if _, err := io.Copy(&out, zr); err != nil {
			if ad.sym {
				panic(pathAbort{"cut: symbolic byte inside a compressed deflate stream"})
			}
			return mkErr("zlib", "zlib: "+err.Error())
		}
		z.out = &Array{isByte: true, b: out.Bytes()}
		z.n = out.Len()
		return nil
	}
	// stored blocks, data may be symbolic
	z.out = newByteArray(0)
	bh := hdr[2]
	for {
		var l [4]byte
		for i := range l {
			v, ok := z.next(m)
			if !ok {
				return mkErr("zlib", "unexpected EOF")
			}
			if v.t != nil {
				panic(pathAbort{"cut: symbolic stored-block length"})
			}
			l[i] = byte(v.c)
		}
		n := int(l[0]) | int(l[1])<<8
		if l[2] != ^l[0] || l[3] != ^l[1] {
			return mkErr("zlib", "flate: corrupt input")
		}
		na := newByteArray(z.n + n)
		copyRange(na, 0, z.out, 0, z.n)
		for i := 0; i < n; i++ {
			v, ok := z.next(m)
			if !ok {
				return mkErr("zlib", "unexpected EOF")
			}
			na.set(z.n+i, v)
		}
		z.out, z.n = na, z.n+n
		if bh&1 != 0 {
			break
		}
		v, ok := z.next(m)
		if !ok {
			return mkErr("zlib", "unexpected EOF")
		}
		if v.t != nil {
			panic(pathAbort{"cut: symbolic deflate block header"})
		}
		bh = byte(v.c)
		if bh&6 != 0 {
			panic(pathAbort{"cut: mixed stored/compressed deflate stream"})
		}
	}
	for i := 0; i < 4; i++ { // adler32 trailer (not checked by the model)
		if _, ok := z.next(m); !ok {
			return mkErr("zlib", "unexpected EOF")
		}
	}
	return nil
}

func (m *Machine) zlibIntrinsic(name string, args []Val) (Val, bool) {
	switch name {
	case "compress/zlib.NewWriterLevel", "compress/zlib.NewWriter":
		return Tuple{&zwObj{dst: args[0], data: newByteArray(0)}, nil}, true
	case "(*compress/zlib.Writer).Write":
		z := args[0].(*zwObj)
		arr, off, n := m.byteCells(args[1])
		if n > 0 {
			na := newByteArray(z.n + n)
			copyRange(na, 0, z.data, 0, z.n)
			copyRange(na, z.n, arr, off, n)
			z.data, z.n = na, z.n+n
		}
		return Tuple{goInt(n), nil}, true
	case "(*compress/zlib.Writer).Close":
		z := args[0].(*zwObj)
		stream := deflateModel(z.data, z.n)
		sz := stream.size()
		r := m.invoke(z.dst, "Write", Slice{arr: stream, len: sz, cap: sz}).(Tuple)
		return r[1], true
	case "compress/zlib.NewReader":
		z := &zrObj{}
		if e := m.zrOpen(z, args[0]); e != nil {
			return Tuple{nil, e}, true
		}
		return Tuple{Iface{nativeZRType, z}, nil}, true
	}
	return nil, false
}

// zrOpen (re)starts the reader model on a new source (NewReader and Resetter.Reset).
func (m *Machine) zrOpen(z *zrObj, src Val) Val {
	*z = zrObj{src: src}
	// the real NewReader wraps readers lacking ReadByte in a bufio.Reader,
	// which may consume more than the stream; reftable passes *bytes.Buffer
	ifc, ok := src.(Iface)
	if !ok || !m.hasMethod(ifc, "ReadByte") {
		unsupported("zlib.NewReader over a reader without ReadByte")
	}
	if m.hasMethod(ifc, "Bytes") && m.hasMethod(ifc, "Next") {
		// a *bytes.Buffer: decode from a copy of its unread bytes, consume
		// everything but the 4-byte trailer now and the trailer when EOF is
		// reported, which is when compress/zlib reads it (reftable derives the
		// on-disk length of a log block from what was consumed)
		rest := m.invoke(src, "Bytes").(Slice)
		cp := newByteArray(rest.len)
		copyRange(cp, 0, rest.arr, rest.off, rest.len)
		as := &arraySrc{a: cp, n: rest.len}
		z.asrc = as
		e := z.fill(m)
		z.asrc = nil
		if e != nil {
			m.invoke(src, "Next", goInt(as.pos))
			return e
		}
		z.tail = 4
		if as.pos < 4 {
			z.tail = as.pos
		}
		m.invoke(src, "Next", goInt(as.pos-z.tail))
		return nil
	}
	return z.fill(m)
}

func (m *Machine) hasMethod(ifc Iface, name string) bool {
	if k := nativeKind(ifc.v); k != "" {
		for _, n := range nativeMethods[k] {
			if n == name {
				return true
			}
		}
		return false
	}
	ms := m.eng.prog.MethodSets.MethodSet(ifc.typ)
	for i := 0; i < ms.Len(); i++ {
		if ms.At(i).Obj().Name() == name {
			return true
		}
	}
	return false
}

func (m *Machine) zrInvoke(z *zrObj, name string, args []Val) (Val, bool) {
	switch name {
	case "Read":
		// compress/flate hands out its 32 KiB window when it is full or when the
		// stream ends; EOF comes with the call that drains the final chunk unless
		// the data ended exactly on a window boundary, in which case it takes one
		// more call (which is also the one that reads the stream trailer)
		dst := args[0].(Slice)
		const window = 32768
		eof := func() Val {
			if z.tail > 0 && z.src != nil {
				m.invoke(z.src, "Next", goInt(z.tail))
				z.tail = 0
			}
			return m.ioErr("EOF")
		}
		if z.pos >= z.n {
			return Tuple{goInt(0), eof()}, true
		}
		if dst.len == 0 {
			return Tuple{goInt(0), nil}, true
		}
		n := dst.len
		if z.n-z.pos < n {
			n = z.n - z.pos
		}
		if end := (z.pos/window + 1) * window; end-z.pos < n {
			n = end - z.pos
		}
		copyRange(dst.arr, dst.off, z.out, z.pos, n)
		z.pos += n
		if z.pos == z.n && z.n%window != 0 {
			return Tuple{goInt(n), eof()}, true
		}
		return Tuple{goInt(n), nil}, true
	case "Close":
		return nil, true
	case "Reset":
		// zlib.Resetter: the same object starts over on a new stream
		return m.zrOpen(z, args[0]), true
	}
	return nil, false
}

// deflateModel is the writer side of the zlib model: the real compressor on
// concrete bytes, stored blocks as compress/flate emits them for incompressible
// data on symbolic bytes.
func deflateModel(data *Array, n int) *Array {
	if !data.hasSym(0, n) {
		var out bytes.Buffer
		zw, _ := zlib.NewWriterLevel(&out, 9)
		zw.Write(data.b[:n])
		zw.Close()
		return &Array{isByte: true, b: out.Bytes()}
	}
	const chunk = 16384
	nblk := (n + chunk - 1) / chunk
	stream := newByteArray(2 + 5*nblk + n + 5 + 4)
	stream.b[0], stream.b[1] = 0x78, 0xda
	p := 2
	for off := 0; off < n; off += chunk {
		l := n - off
		if l > chunk {
			l = chunk
		}
		copy(stream.b[p:], []byte{0x00, byte(l), byte(l >> 8), ^byte(l), ^byte(l >> 8)})
		p += 5
		copyRange(stream, p, data, off, l)
		p += l
	}
	copy(stream.b[p:], []byte{0x01, 0x00, 0x00, 0xff, 0xff})
	return stream
}

// arraySrc lets the reader model run over a plain byte array (C side).
type arraySrc struct {
	a   *Array
	n   int
	pos int
}

// inflateModel decodes one zlib stream from the first n bytes of in and
// returns the data, the number of input bytes consumed and an error text.
func inflateModel(in *Array, n int) (out *Array, used int, errText string) {
	src := &arraySrc{a: in, n: n}
	z := &zrObj{asrc: src}
	if e := z.fill(nil); e != nil {
		return nil, src.pos, errMsgOf(e)
	}
	if z.out.size() > z.n {
		o := newByteArray(z.n)
		copyRange(o, 0, z.out, 0, z.n)
		z.out = o
	}
	return z.out, src.pos, ""
}

func errMsgOf(e Val) string {
	if ifc, ok := e.(Iface); ok {
		if ne, ok := ifc.v.(*nativeErr); ok {
			return ne.msg
		}
	}
	return "error"
}
