package main

import (
	"fmt"
	"go/constant"
	"go/token"
	"go/types"
	"os"
	"strings"
	"sync"

	"golang.org/x/tools/go/ssa"
)

// ---------- control-flow signals (Go panics used internally) ----------

// targetPanic: the interpreted program panicked (runtime error, explicit
// panic, log.Panic, allocation beyond the cap).  It ends the path.
type targetPanic struct {
	kind string // class: index, slice, nil, divide, explicit, logpanic, alloc, typeassert, hang
	msg  string
	fn   string // function containing the site
	pos  string // file:line
}

var debugImplied = os.Getenv("VERIF_DEBUG_IMPLIED") != ""

type pathAbort struct{ why string } // "infeasible", "violation" or "cut: ..."/"unknown: ..."

type engineError struct{ msg string } // unsupported construct: exit 2

func unsupported(format string, a ...interface{}) {
	panic(engineError{fmt.Sprintf(format, a...)})
}

// ---------- machine (one path) ----------

type nondetRec struct {
	kind string // u8,u16,u32,u64,bool,range,choose
	t    *Term  // symbolic var (nil for decided values)
	val  int64  // decided value
}

type Violation struct {
	Kind    string `json:"kind"` // assert | panic | monitor
	Label   string `json:"label"`
	Fn      string `json:"fn,omitempty"`
	Pos     string `json:"pos,omitempty"`
	Msg     string `json:"msg,omitempty"`
	Vector  []int64 `json:"vector"`
	Decisions []int64 `json:"decisions,omitempty"`
	Trace   []string `json:"trace,omitempty"`
}

type frame struct {
	fn     *ssa.Function
	info   *fnInfo
	env    []Val
	prev   *ssa.BasicBlock
	defers []func()
}

// fnInfo numbers the values of a function so that frames are slices.
type fnInfo struct {
	idx map[ssa.Value]int
	n   int
}

var fnInfoCache sync.Map

func infoFor(fn *ssa.Function) *fnInfo {
	if v, ok := fnInfoCache.Load(fn); ok {
		return v.(*fnInfo)
	}
	fi := &fnInfo{idx: map[ssa.Value]int{}}
	add := func(v ssa.Value) {
		if _, ok := fi.idx[v]; !ok {
			fi.idx[v] = fi.n
			fi.n++
		}
	}
	for _, p := range fn.Params {
		add(p)
	}
	for _, fv := range fn.FreeVars {
		add(fv)
	}
	for _, b := range fn.Blocks {
		for _, in := range b.Instrs {
			if v, ok := in.(ssa.Value); ok {
				add(v)
			}
		}
	}
	v, _ := fnInfoCache.LoadOrStore(fn, fi)
	return v.(*fnInfo)
}

func (fr *frame) set(v ssa.Value, x Val) { fr.env[fr.info.idx[v]] = x }

type Machine struct {
	eng *Engine
	w   *Worker
	ctx *TermCtx
	sol *Solver
	h   *HarnessRun

	prefix    []int64
	pos       int
	decisions []int64
	assumesAt []int
	alts      [][]int64

	pcSet   map[*Term]bool
	pcList  []*Term
	uf      map[*Term]*Term
	nAssume int

	inputs  []nondetRec
	nvars   int
	steps   int
	globals map[*ssa.Global]*Val
	inited  map[*ssa.Package]bool
	initing map[*ssa.Package]bool

	fs     *FS
	sched  *Sched
	frozen map[interface{}]bool
	syncMaps map[*Val]*MapV
	locked int // depth of shared-mutex critical sections (C19)

	funcs    map[string]bool
	covers   []string
	observes []string
	viols    []Violation
	forks    int
	curFn    []*ssa.Function
	notes    []string

	models    []*modelT
	cacheHits int

	cfn         string // C function being interpreted (C15)
	cheap       int    // (unused) C heap pseudo-address counter
	cobjs       []*LObj // C objects by pseudo address (llir.go)
	cglobals    map[string]*LObj
	cdepth      int
	cuninit     int
	cfds        map[int]*fileObj // C file descriptors (cfs.go)
	cfdNext     int
	cerrno      *LObj
	cclock      int
	crand       int
	cdirs       map[*LObj]*cDir
	hangLimit   int
	faultOpen   int
	faultRead   int
	allocBytes  int64
	allocLimit  int64 // > 0: VerifAllocBudget in force
	maxSteps    int
	quietFS     bool
	mainProc    int
	ifPos       token.Pos
	callPos     token.Pos
	rndCnt      uint32
	clock       int64
	lastCrashed bool
}

func (m *Machine) fresh(prefix string, w int) *Term {
	m.nvars++
	return m.ctx.Var(fmt.Sprintf("%s_%d", prefix, m.nvars), w)
}

// term returns the SMT term of an Int (constants are lifted).
func (m *Machine) term(i Int) *Term {
	if i.t != nil {
		return i.t
	}
	if i.w == 0 {
		return m.ctx.Bool(i.c != 0)
	}
	return m.ctx.BV(int(i.w), i.c)
}

// mk wraps a term back into an Int, folding constants.
func (m *Machine) mk(t *Term, sg bool) Int {
	switch t.op {
	case opConst:
		return Int{c: t.val, w: uint8(t.w), sg: sg}
	case opTrue:
		return Int{c: 1}
	case opFalse:
		return Int{}
	}
	return Int{t: t, w: uint8(t.w), sg: sg}
}

func (m *Machine) assume(c *Term) {
	if c.isTrue() {
		return
	}
	if c.isFalse() {
		panic(pathAbort{"infeasible"})
	}
	m.pcSet[c] = true
	m.nAssume++
	if len(m.models) > 0 {
		m.filterModels(c)
	}
	// path condition as a list; variables sharing a literal are merged into
	// one independence class (union-find)
	m.pcList = append(m.pcList, c)
	vs := varsOf(c)
	for i := 1; i < len(vs); i++ {
		m.union(vs[0], vs[i])
	}
}

func (m *Machine) find(v *Term) *Term {
	for {
		p, ok := m.uf[v]
		if !ok || p == v {
			return v
		}
		if gp, ok := m.uf[p]; ok && gp != p {
			m.uf[v] = gp
		}
		v = p
	}
}

func (m *Machine) union(a, b *Term) {
	ra, rb := m.find(a), m.find(b)
	if ra != rb {
		m.uf[ra] = rb
	}
}

// slice returns the literals of the path condition that (transitively) share
// variables with the extra literals: constraints over independent variables
// cannot affect the answer.
func (m *Machine) pcSlice(extra []*Term, about ...*Term) (lits []*Term, groups map[*Term]bool) {
	groups = map[*Term]bool{}
	for _, e := range about {
		for _, v := range varsOf(e) {
			groups[m.find(v)] = true
		}
	}
	// the extras may connect classes that the path condition keeps apart
	for _, e := range extra {
		for _, v := range varsOf(e) {
			groups[m.find(v)] = true
		}
	}
	for _, l := range m.pcList {
		vs := varsOf(l)
		if len(vs) == 0 || groups[m.find(vs[0])] {
			lits = append(lits, l)
		}
	}
	return
}

func (m *Machine) recordDecision(v int64) {
	m.decisions = append(m.decisions, v)
	m.assumesAt = append(m.assumesAt, m.nAssume)
	m.pos++
	if len(m.decisions) > m.eng.maxDecisions {
		panic(pathAbort{"cut: decision depth"})
	}
}

func (m *Machine) replaying() bool { return m.pos < len(m.prefix) }

func (m *Machine) addAlt(v int64) {
	alt := make([]int64, len(m.decisions)+1)
	copy(alt, m.decisions)
	alt[len(m.decisions)] = v
	m.alts = append(m.alts, alt)
}

func (m *Machine) check(extra ...*Term) string {
	r, _, _ := m.query(extra)
	return r
}

// branch decides a symbolic boolean, forking if both sides are feasible.
// Decision codes: 0 true (assumed), 1 false (assumed), 2 implied true, 3 implied
// false (no assumption needed); implied outcomes are recorded so that a replay
// consumes the decision stream without asking the solver again.
func (m *Machine) branch(c *Term) bool {
	if c.isConst() {
		return c.isTrue()
	}
	if m.pcSet[c] {
		return true
	}
	nc := m.ctx.Not(c)
	if m.pcSet[nc] {
		return false
	}
	var k int64
	if m.replaying() {
		k = m.prefix[m.pos]
	} else {
		m.forks++
		if !m.feasible(c) {
			k = 3 // path condition is satisfiable, so the other side is
		} else if m.feasible(nc) {
			m.addAlt(1)
			k = 0
		} else {
			k = 2
		}
	}
	if debugImplied && !m.replaying() {
		key := fmt.Sprintf("k=%d %s", k, m.posStr(m.ifPos))
		if n := len(m.curFn); n > 0 {
			key += " " + m.curFn[n-1].Name()
		}
		m.h.mu.Lock()
		m.h.notes[key]++
		m.h.mu.Unlock()
	}
	m.recordDecision(k)
	switch k {
	case 0:
		m.assume(c)
		return true
	case 1:
		m.assume(nc)
		return false
	case 2:
		m.pcSet[c] = true
		return true
	}
	m.pcSet[nc] = true
	return false
}

// decide makes an n-way nondeterministic (non-solver) choice.
func (m *Machine) decide(n int) int {
	if n <= 0 {
		panic(pathAbort{"infeasible"})
	}
	if n == 1 {
		return 0
	}
	if m.replaying() {
		k := m.prefix[m.pos]
		m.recordDecision(k)
		return int(k)
	}
	for i := 1; i < n; i++ {
		m.addAlt(int64(i))
	}
	m.recordDecision(0)
	return 0
}

// concretize enumerates all feasible values of t and forks per value.
func (m *Machine) concretize(t *Term, what string) uint64 {
	if t.op == opConst {
		return t.val
	}
	if m.replaying() {
		v := uint64(m.prefix[m.pos])
		m.recordDecision(int64(v))
		m.assume(m.ctx.Cmp(opEq, t, m.ctx.BV(t.w, v)))
		return v
	}
	var vals []uint64
	var block []*Term
	for {
		r, mv, _ := m.query(block, t)
		if r != "sat" {
			break
		}
		cp := make(map[*Term]uint64, len(mv))
		for k, x := range mv {
			cp[k] = x
		}
		md := &modelT{vals: cp, memo: map[*Term]uint64{}}
		v, ok := md.eval(t)
		if !ok {
			panic(pathAbort{"unknown: cannot evaluate concretized term under the model"})
		}
		vals = append(vals, v)
		if len(vals) > m.eng.maxConcretize {
			panic(pathAbort{"cut: concretize " + what + " >" + fmt.Sprint(m.eng.maxConcretize) + " values"})
		}
		block = append(block, m.ctx.Not(m.ctx.Cmp(opEq, t, m.ctx.BV(t.w, v))))
	}
	if len(vals) == 0 {
		panic(pathAbort{"infeasible"})
	}
	for _, v := range vals[1:] {
		m.addAlt(int64(v))
	}
	m.recordDecision(int64(vals[0]))
	m.assume(m.ctx.Cmp(opEq, t, m.ctx.BV(t.w, vals[0])))
	return vals[0]
}

// cIdx concretizes an index/bound that must lie in [0,limit]; the out-of-range
// case is decided symbolically first and becomes a target panic.
func (m *Machine) cIdx(v Val, limit int, kind, what string, pos token.Pos) int {
	i := v.(Int)
	if i.t == nil {
		x := int(sext64(i.c, int(i.w)))
		if !i.sg {
			x = int(i.c)
			if i.c > uint64(1<<62) {
				x = -1
			}
		}
		if x < 0 || x > limit {
			m.tpanic(kind, fmt.Sprintf("%s %d out of range [0,%d]", what, x, limit), pos)
		}
		return x
	}
	t := m.ctx.Resize(i.t, 64, i.sg)
	oob := m.ctx.Not(m.ctx.Cmp(opUle, t, m.ctx.BV(64, uint64(limit)))) // unsigned: catches negatives too
	if m.branch(oob) {
		m.tpanic(kind, fmt.Sprintf("%s out of range (symbolic, limit %d)", what, limit), pos)
	}
	return int(m.concretize(t, what))
}

func (m *Machine) cInt(v Val, what string) int {
	i := v.(Int)
	if i.t == nil {
		if i.sg {
			return int(sext64(i.c, int(i.w)))
		}
		return int(i.c)
	}
	u := m.concretize(i.t, what)
	if i.sg {
		return int(sext64(u, int(i.w)))
	}
	return int(u)
}

func (m *Machine) posStr(pos token.Pos) string {
	if !pos.IsValid() {
		return "?"
	}
	p := m.eng.prog.Fset.Position(pos)
	f := p.Filename
	if strings.HasPrefix(f, m.eng.repoDir+"/") {
		f = f[len(m.eng.repoDir)+1:]
	}
	return fmt.Sprintf("%s:%d", f, p.Line)
}

func (m *Machine) tpanic(kind, msg string, pos token.Pos) {
	fn := "?"
	if n := len(m.curFn); n > 0 {
		fn = m.curFn[n-1].String()
	}
	panic(targetPanic{kind: kind, msg: msg, fn: fn, pos: m.posStr(pos)})
}

// ---------- constants, globals ----------

func (m *Machine) constVal(c *ssa.Const) Val {
	if v, ok := m.w.constCache[c]; ok {
		return v
	}
	v := m.constVal0(c)
	m.w.constCache[c] = v
	return v
}

func (m *Machine) constVal0(c *ssa.Const) Val {
	t := c.Type()
	if c.Value == nil {
		return zeroVal(t)
	}
	if b, ok := t.Underlying().(*types.Basic); ok {
		if b.Info()&types.IsString != 0 {
			return mkStr(constant.StringVal(c.Value))
		}
		w, sg := widthOf(t)
		if w == 0 {
			return cBool(constant.BoolVal(c.Value))
		}
		if w > 0 {
			if sg {
				return cInt(uint64(c.Int64()), w, true)
			}
			return cInt(c.Uint64(), w, false)
		}
		if b.Info()&types.IsFloat != 0 {
			return c.Float64()
		}
	}
	unsupported("const: unsupported %s", c.String())
	return nil
}

func (m *Machine) global(g *ssa.Global) Ptr {
	loc, ok := m.globals[g]
	if !ok {
		if g.Pkg != nil && !m.inited[g.Pkg] {
			m.initPackage(g.Pkg)
			if loc, ok = m.globals[g]; ok {
				return Ptr{loc: loc}
			}
		}
		loc = new(Val)
		*loc = zeroVal(g.Type().Underlying().(*types.Pointer).Elem())
		m.globals[g] = loc
	}
	return Ptr{loc: loc}
}

// Packages whose initialisers are interpreted (pure: they only build error
// values and tables).  Every other dependency's init is skipped; the globals
// the interpreted code needs from them are set up in initPackage.
var initWhitelist = map[string]bool{
	"errors": false, "internal/oserror": true, "io": true, "io/fs": true, "bytes": true,
	"strings": true, "unicode/utf8": true, "sort": true, "path": true, "encoding/binary": true,
	"math": true, "math/bits": true, "strconv": false, "bufio": true, "hash/crc32": false,
	"internal/bytealg": false, "slices": true, "cmp": true,
}

func (m *Machine) initPackage(p *ssa.Package) {
	if m.inited[p] {
		return
	}
	m.inited[p] = true
	path := p.Pkg.Path()
	if p == m.eng.pkg || initWhitelist[path] {
		if f := p.Func("init"); f != nil {
			if m.initing == nil {
				m.initing = map[*ssa.Package]bool{}
			}
			m.initing[p] = true
			m.call(f, nil)
		}
		return
	}
	if path == "os" {
		// os re-exports io/fs's sentinel errors
		if fsp := m.eng.prog.ImportedPackage("io/fs"); fsp != nil {
			for _, n := range []string{"ErrNotExist", "ErrExist", "ErrClosed", "ErrPermission", "ErrInvalid"} {
				src, ok1 := fsp.Members[n].(*ssa.Global)
				dst, ok2 := p.Members[n].(*ssa.Global)
				if ok1 && ok2 {
					v := m.global(src).load()
					loc := new(Val)
					*loc = v
					m.globals[dst] = loc
				}
			}
		}
	}
}

// ---------- execution ----------

func (m *Machine) get(fr *frame, v ssa.Value) Val {
	switch x := v.(type) {
	case *ssa.Const:
		return m.constVal(x)
	case *ssa.Function:
		return x
	case *ssa.Builtin:
		return x
	case *ssa.Global:
		return m.global(x)
	}
	k, ok := fr.info.idx[v]
	if !ok {
		unsupported("unbound value %s in %s", v.Name(), fr.fn)
	}
	return fr.env[k]
}

func (m *Machine) call(fn *ssa.Function, args []Val) Val { return m.callWith(fn, args, nil) }

func (m *Machine) callClosure(c *Closure, args []Val) Val { return m.callWith(c.fn, args, c.bind) }

func (m *Machine) callValue(f Val, args []Val) Val {
	switch c := f.(type) {
	case *Closure:
		return m.callClosure(c, args)
	case *ssa.Function:
		return m.call(c, args)
	}
	unsupported("call of %T", f)
	return nil
}

func (m *Machine) callWith(fn *ssa.Function, args []Val, bind []Val) Val {
	if r, ok := m.intrinsic(fn, args); ok {
		return r
	}
	if fn.Name() == "init" && fn.Synthetic == "package initializer" && fn.Pkg != nil && fn.Pkg != m.eng.pkg && !m.initing[fn.Pkg] {
		// dependencies are initialised lazily, on the first access to one of
		// their globals (see global / initPackage)
		return nil
	}
	if fn.Blocks == nil {
		unsupported("no body for %s", fn.String())
	}
	if fn.Pkg == m.eng.pkg {
		m.funcs[fn.String()] = true
	}
	if len(m.curFn) > 400 {
		panic(pathAbort{"cut: call depth"})
	}
	m.curFn = append(m.curFn, fn)
	defer func() { m.curFn = m.curFn[:len(m.curFn)-1] }()
	fi := m.w.fnInfos[fn]
	if fi == nil {
		fi = infoFor(fn)
		m.w.fnInfos[fn] = fi
	}
	fr := &frame{fn: fn, info: fi, env: make([]Val, fi.n)}
	for i, p := range fn.Params {
		fr.set(p, args[i])
	}
	for i, fv := range fn.FreeVars {
		fr.set(fv, bind[i])
	}
	b := fn.Blocks[0]
	for {
		var next *ssa.BasicBlock
		for _, in := range b.Instrs {
			m.steps++
			if m.steps > m.eng.maxSteps && m.steps > m.maxSteps {
				panic(pathAbort{"cut: step budget"})
			}
			if m.hangLimit > 0 && m.steps > m.hangLimit {
				m.hangLimit = 0
				stack := ""
				for k := len(m.curFn) - 1; k >= 0 && k >= len(m.curFn)-7; k-- {
					stack += " <- " + m.curFn[k].Name()
				}
				m.tpanic("hang", "instruction budget set by the harness exceeded (non-termination); stack:"+stack, in.Pos())
			}
			switch i := in.(type) {
			case *ssa.Phi:
				// phis of a block read the values before any phi of the block is assigned
				continue
			case *ssa.If:
				c := m.get(fr, i.Cond).(Int)
				take := false
				if c.t == nil {
					take = c.c != 0
				} else {
					m.ifPos = i.Cond.Pos()
					take = m.branch(c.t)
				}
				if take {
					next = b.Succs[0]
				} else {
					next = b.Succs[1]
				}
			case *ssa.Jump:
				next = b.Succs[0]
			case *ssa.Return:
				switch len(i.Results) {
				case 0:
					return nil
				case 1:
					return m.get(fr, i.Results[0])
				}
				t := make(Tuple, len(i.Results))
				for k, r := range i.Results {
					t[k] = m.get(fr, r)
				}
				return t
			case *ssa.Panic:
				x := m.get(fr, i.X)
				msg := ""
				if ifc, ok := x.(Iface); ok {
					msg = describe(ifc.v)
				}
				m.tpanic("explicit", "panic: "+msg, i.Pos())
			case *ssa.Store:
				p := m.get(fr, i.Addr)
				if p == nil {
					m.tpanic("nil", "nil dereference (store)", i.Pos())
				}
				m.store(p.(Ptr), m.get(fr, i.Val), i.Pos())
			case *ssa.MapUpdate:
				mvv := m.get(fr, i.Map)
				if mvv == nil {
					m.tpanic("nil", "assignment to entry in nil map", i.Pos())
				}
				mv := mvv.(*MapV)
				m.sharedWrite(mv, i.Pos())
				k := m.get(fr, i.Key)
				if idx := m.mapFind(mv, k); idx >= 0 {
					mv.vals[idx] = copyVal(m.get(fr, i.Value))
				} else {
					mv.keys = append(mv.keys, k)
					mv.vals = append(mv.vals, copyVal(m.get(fr, i.Value)))
				}
			case *ssa.RunDefers:
				for k := len(fr.defers) - 1; k >= 0; k-- {
					fr.defers[k]()
				}
				fr.defers = nil
			case *ssa.Defer:
				m.deferCall(fr, i)
			case *ssa.DebugRef:
			case *ssa.Go, *ssa.Send, *ssa.Select:
				unsupported("concurrency instruction %T in %s", in, fn)
			case ssa.Value:
				fr.set(i, m.eval(fr, i))
			default:
				unsupported("unsupported instr %T", in)
			}
		}
		if next == nil {
			unsupported("fell off block in %s", fn)
		}
		// evaluate the successor's phis simultaneously
		var phiVals []Val
		var phis []*ssa.Phi
		for _, in := range next.Instrs {
			ph, ok := in.(*ssa.Phi)
			if !ok {
				break
			}
			for k, p := range next.Preds {
				if p == b {
					phis = append(phis, ph)
					phiVals = append(phiVals, m.get(fr, ph.Edges[k]))
					break
				}
			}
		}
		for k, ph := range phis {
			fr.set(ph, phiVals[k])
		}
		fr.prev = b
		b = next
	}
}

func (m *Machine) deferCall(fr *frame, i *ssa.Defer) {
	dargs := make([]Val, len(i.Call.Args))
	for k, a := range i.Call.Args {
		dargs[k] = m.get(fr, a)
	}
	if i.Call.IsInvoke() {
		recv := m.get(fr, i.Call.Value)
		name := i.Call.Method.Name()
		pos := i.Pos()
		fr.defers = append(fr.defers, func() {
			if recv == nil {
				m.tpanic("nil", "nil interface method call (deferred)", pos)
			}
			m.invoke(recv, name, dargs...)
		})
		return
	}
	callee := m.get(fr, i.Call.Value)
	fr.defers = append(fr.defers, func() {
		switch f := callee.(type) {
		case *Closure:
			m.callClosure(f, dargs)
		case *ssa.Function:
			m.call(f, dargs)
		case *ssa.Builtin:
			if f.Name() != "recover" {
				unsupported("deferred builtin %s", f.Name())
			}
		default:
			unsupported("deferred call of %T", callee)
		}
	})
}

// sharedWrite flags a write to an object frozen by VerifFreeze (C19).
func (m *Machine) sharedWrite(obj interface{}, pos token.Pos) {
	if m.frozen == nil || m.locked > 0 {
		return
	}
	if m.frozen[obj] {
		fn := "?"
		if n := len(m.curFn); n > 0 {
			fn = m.curFn[n-1].String()
		}
		m.violate(Violation{Kind: "monitor", Label: "shared-write", Fn: fn, Pos: m.posStr(pos),
			Msg: "write to state reachable from a shared reader"})
	}
}

func (m *Machine) store(p Ptr, v Val, pos token.Pos) {
	if p.loc != nil {
		m.sharedWrite(p.loc, pos)
		assignInto(p.loc, v)
		return
	}
	m.sharedWrite(p.arr, pos)
	p.arr.set(p.idx, copyVal(v))
}

func (m *Machine) eval(fr *frame, v ssa.Value) Val {
	switch i := v.(type) {
	case *ssa.Alloc:
		cell := new(Val)
		*cell = zeroVal(i.Type().Underlying().(*types.Pointer).Elem())
		return Ptr{loc: cell}
	case *ssa.BinOp:
		return m.binop(i.Op, m.get(fr, i.X), m.get(fr, i.Y), i.Pos())
	case *ssa.UnOp:
		x := m.get(fr, i.X)
		switch i.Op {
		case token.MUL:
			if x == nil {
				m.tpanic("nil", "nil dereference", i.Pos())
			}
			return copyVal(x.(Ptr).load())
		case token.NOT:
			xi := x.(Int)
			if xi.t == nil {
				return cBool(xi.c == 0)
			}
			return m.mk(m.ctx.Not(xi.t), false)
		case token.SUB:
			if f, ok := x.(float64); ok {
				return -f
			}
			xi := x.(Int)
			if xi.t == nil {
				return cInt(-xi.c, int(xi.w), xi.sg)
			}
			return m.mk(m.ctx.Bin(opSub, m.ctx.BV(int(xi.w), 0), xi.t), xi.sg)
		case token.XOR:
			xi := x.(Int)
			if xi.t == nil {
				return cInt(^xi.c, int(xi.w), xi.sg)
			}
			return m.mk(m.ctx.Bin(opBXor, xi.t, m.ctx.BV(int(xi.w), mask(int(xi.w)))), xi.sg)
		}
		unsupported("unop %s", i.Op)
	case *ssa.Convert:
		return m.convert(m.get(fr, i.X), i.X.Type(), i.Type())
	case *ssa.ChangeType:
		return m.get(fr, i.X)
	case *ssa.MakeInterface:
		return Iface{i.X.Type(), m.get(fr, i.X)}
	case *ssa.Extract:
		return m.get(fr, i.Tuple).(Tuple)[i.Index]
	case *ssa.MakeSlice:
		return m.makeSlice(fr, i)
	case *ssa.IndexAddr:
		x := m.get(fr, i.X)
		var arr *Array
		off, n := 0, 0
		switch xx := x.(type) {
		case Slice:
			arr, off, n = xx.arr, xx.off, xx.len
		case Ptr:
			a, _ := xx.load().(*Array)
			if a == nil {
				unsupported("IndexAddr through pointer to %T", xx.load())
			}
			arr = a
			n = arr.size()
		case nil:
			m.tpanic("nil", "nil dereference (index)", i.Pos())
		}
		if n == 0 {
			m.tpanic("index", "index out of range with length 0", i.Pos())
		}
		idx := m.cIdx(m.get(fr, i.Index), n-1, "index", "index", i.Pos())
		if arr.isByte {
			return Ptr{arr: arr, idx: off + idx}
		}
		return Ptr{loc: &arr.cells[off+idx]}
	case *ssa.Index:
		x := m.get(fr, i.X)
		switch xx := x.(type) {
		case Str:
			if xx.n == 0 {
				m.tpanic("index", "index out of range with length 0", i.Pos())
			}
			idx := m.cIdx(m.get(fr, i.Index), xx.n-1, "index", "index", i.Pos())
			return xx.at(idx)
		case *Array:
			if xx.size() == 0 {
				m.tpanic("index", "index out of range with length 0", i.Pos())
			}
			idx := m.cIdx(m.get(fr, i.Index), xx.size()-1, "index", "index", i.Pos())
			return copyVal(xx.get(idx))
		}
		unsupported("index of %T", x)
	case *ssa.MakeMap:
		return &MapV{}
	case *ssa.Range:
		switch x := m.get(fr, i.X).(type) {
		case *MapV:
			return &mapIter{mp: x}
		case Str:
			return &mapIter{str: &x}
		case nil:
			return &mapIter{mp: &MapV{}}
		}
		unsupported("range over %T", m.get(fr, i.X))
	case *ssa.Next:
		return m.next(m.get(fr, i.Iter).(*mapIter), i)
	case *ssa.Lookup:
		return m.lookup(fr, i)
	case *ssa.Slice:
		return m.slice(fr, i)
	case *ssa.Call:
		return m.doCall(fr, i)
	case *ssa.FieldAddr:
		pv := m.get(fr, i.X)
		if pv == nil {
			m.tpanic("nil", "nil dereference (field)", i.Pos())
		}
		st, ok := pv.(Ptr).load().(StructV)
		if !ok {
			unsupported("FieldAddr on %T in %s", pv.(Ptr).load(), fr.fn)
		}
		return Ptr{loc: &st.f[i.Field]}
	case *ssa.Field:
		return copyVal(m.get(fr, i.X).(StructV).f[i.Field])
	case *ssa.MakeClosure:
		c := &Closure{fn: i.Fn.(*ssa.Function)}
		for _, b := range i.Bindings {
			c.bind = append(c.bind, m.get(fr, b))
		}
		return c
	case *ssa.ChangeInterface:
		return m.get(fr, i.X)
	case *ssa.SliceToArrayPointer:
		s := m.get(fr, i.X).(Slice)
		n := int(i.Type().Underlying().(*types.Pointer).Elem().Underlying().(*types.Array).Len())
		if s.len < n {
			m.tpanic("slice", "slice to array pointer: length too short", i.Pos())
		}
		if s.off == 0 && s.arr != nil && s.arr.size() == n {
			loc := new(Val)
			*loc = s.arr
			return Ptr{loc: loc}
		}
		unsupported("SliceToArrayPointer of a sub-slice")
	case *ssa.TypeAssert:
		return m.typeAssert(fr, i)
	}
	unsupported("unsupported value %T: %s in %s", v, v, fr.fn)
	return nil
}

func (m *Machine) makeSlice(fr *frame, i *ssa.MakeSlice) Val {
	lv, cv := m.get(fr, i.Len).(Int), m.get(fr, i.Cap).(Int)
	limit := m.eng.maxAlloc
	// the size condition is decided symbolically first: an input-driven
	// allocation above the cap is "allocation without bound"
	chk := func(x Int) int {
		if x.t == nil {
			n := int(sext64(x.c, int(x.w)))
			if n < 0 {
				m.tpanic("alloc", "makeslice: len out of range", i.Pos())
			}
			if n > limit {
				m.tpanic("alloc", fmt.Sprintf("makeslice: size %d above the allocation cap %d", n, limit), i.Pos())
			}
			return n
		}
		t := m.ctx.Resize(x.t, 64, x.sg)
		if m.branch(m.ctx.Not(m.ctx.Cmp(opUle, t, m.ctx.BV(64, uint64(limit))))) {
			// prefer a witness the native runtime rejects outright (so that the
			// replay panics instead of allocating gigabytes)
			if huge := m.ctx.Not(m.ctx.Cmp(opUle, t, m.ctx.BV(64, 1<<48))); !m.replaying() && m.feasible(huge) {
				m.assume(huge)
			}
			m.tpanic("alloc", fmt.Sprintf("makeslice: input-driven size above the allocation cap %d (or negative)", limit), i.Pos())
		}
		return int(m.concretize(t, "make size"))
	}
	n := chk(lv)
	c := n
	if i.Cap != i.Len {
		c = chk(cv)
	}
	if c < n {
		m.tpanic("alloc", "makeslice: cap out of range", i.Pos())
	}
	el := i.Type().Underlying().(*types.Slice).Elem()
	m.countAlloc(int64(c), i.Pos())
	return Slice{arr: newArrayFor(el, c), len: n, cap: c}
}

// countAlloc adds to the running allocation total; beyond a budget stated by
// the harness (VerifAllocBudget) it is "allocation without bound".
func (m *Machine) countAlloc(n int64, pos token.Pos) {
	m.allocBytes += n
	if m.allocLimit > 0 && m.allocBytes > m.allocLimit {
		m.allocLimit = 0
		m.tpanic("alloc", "allocation budget stated by the harness exceeded", pos)
	}
}

func (m *Machine) next(it *mapIter, i *ssa.Next) Val {
	if it.str != nil {
		if it.pos >= it.str.n {
			return Tuple{cBool(false), goInt(0), cInt(0, 32, true)}
		}
		c := it.str.at(it.pos)
		if c.t == nil && c.c < 0x80 {
			it.pos++
			return Tuple{cBool(true), goInt(it.pos - 1), cInt(c.c, 32, true)}
		}
		// UTF-8 decoding with possibly symbolic bytes: the byte classes that
		// decide the width are decided by branching (exactly Go's rules:
		// shortest form, no surrogates, <= U+10FFFF; anything else is
		// RuneError of width 1)
		in := func(b Int, lo, hi uint64) bool {
			if b.t == nil {
				return b.c >= lo && b.c <= hi
			}
			return m.branch(m.ctx.And(m.ctx.Cmp(opUle, m.ctx.BV(8, lo), b.t), m.ctx.Cmp(opUle, b.t, m.ctx.BV(8, hi))))
		}
		bits := func(b Int, mask uint64, sh uint64) *Term {
			var t *Term
			if b.t == nil {
				t = m.ctx.BV(32, (b.c&mask)<<sh)
			} else {
				t = m.ctx.Bin(opShl, m.ctx.Bin(opBAnd, m.ctx.Resize(b.t, 32, false), m.ctx.BV(32, mask)), m.ctx.BV(32, sh))
			}
			return t
		}
		p := it.pos
		avail := it.str.n - p
		bad := func() Val {
			it.pos = p + 1
			return Tuple{cBool(true), goInt(p), cInt(0xFFFD, 32, true)}
		}
		ok := func(w int, t *Term) Val {
			it.pos = p + w
			return Tuple{cBool(true), goInt(p), m.mk(t, true)}
		}
		if in(c, 0, 0x7f) {
			it.pos++
			return Tuple{cBool(true), goInt(p), m.mk(m.ctx.Resize(c.t, 32, false), true)}
		}
		cont := func(k int, lo, hi uint64) bool { return k < avail && in(it.str.at(p+k), lo, hi) }
		switch {
		case in(c, 0xC2, 0xDF):
			if !cont(1, 0x80, 0xBF) {
				return bad()
			}
			return ok(2, m.ctx.Bin(opBOr, bits(c, 0x1F, 6), bits(it.str.at(p+1), 0x3F, 0)))
		case in(c, 0xE0, 0xEF):
			lo, hi := uint64(0x80), uint64(0xBF)
			if in(c, 0xE0, 0xE0) {
				lo = 0xA0
			} else if in(c, 0xED, 0xED) {
				hi = 0x9F
			}
			if !cont(1, lo, hi) || !cont(2, 0x80, 0xBF) {
				return bad()
			}
			return ok(3, m.ctx.Bin(opBOr, m.ctx.Bin(opBOr, bits(c, 0x0F, 12), bits(it.str.at(p+1), 0x3F, 6)), bits(it.str.at(p+2), 0x3F, 0)))
		case in(c, 0xF0, 0xF4):
			lo, hi := uint64(0x80), uint64(0xBF)
			if in(c, 0xF0, 0xF0) {
				lo = 0x90
			} else if in(c, 0xF4, 0xF4) {
				hi = 0x8F
			}
			if !cont(1, lo, hi) || !cont(2, 0x80, 0xBF) || !cont(3, 0x80, 0xBF) {
				return bad()
			}
			t := m.ctx.Bin(opBOr, m.ctx.Bin(opBOr, bits(c, 0x07, 18), bits(it.str.at(p+1), 0x3F, 12)), m.ctx.Bin(opBOr, bits(it.str.at(p+2), 0x3F, 6), bits(it.str.at(p+3), 0x3F, 0)))
			return ok(4, t)
		}
		return bad()
	}
	if it.pos >= len(it.mp.keys) {
		return Tuple{cBool(false), nil, nil}
	}
	it.pos++
	return Tuple{cBool(true), it.mp.keys[it.pos-1], copyVal(it.mp.vals[it.pos-1])}
}

func (m *Machine) lookup(fr *frame, i *ssa.Lookup) Val {
	x := m.get(fr, i.X)
	if _, isMap := i.X.Type().Underlying().(*types.Map); isMap {
		mv, _ := x.(*MapV)
		var res Val
		found := false
		if mv != nil {
			if k := m.mapFind(mv, m.get(fr, i.Index)); k >= 0 {
				res, found = copyVal(mv.vals[k]), true
			}
		}
		if !found {
			res = zeroVal(i.X.Type().Underlying().(*types.Map).Elem())
		}
		if i.CommaOk {
			return Tuple{res, cBool(found)}
		}
		return res
	}
	s := x.(Str)
	if s.n == 0 {
		m.tpanic("index", "string index out of range with length 0", i.Pos())
	}
	idx := m.cIdx(m.get(fr, i.Index), s.n-1, "index", "string index", i.Pos())
	return s.at(idx)
}

func (m *Machine) keyEq(a, b Val) bool {
	switch x := a.(type) {
	case Str:
		return m.branch(m.strEq(x, b.(Str)))
	case Int:
		y := b.(Int)
		if x.t == nil && y.t == nil {
			return x.c == y.c
		}
		return m.branch(m.ctx.Cmp(opEq, m.term(x), m.term(y)))
	case *Array:
		return m.branch(m.arrEq(x, b.(*Array)))
	case StructV:
		y := b.(StructV)
		for k := range x.f {
			if !m.keyEq(x.f[k], y.f[k]) {
				return false
			}
		}
		return true
	case Iface:
		y, ok := b.(Iface)
		return ok && types.Identical(x.typ, y.typ) && m.keyEq(x.v, y.v)
	case Ptr:
		y, ok := b.(Ptr)
		return ok && x == y
	case nil:
		return b == nil
	}
	unsupported("map key %T", a)
	return false
}

func (m *Machine) mapFind(mp *MapV, k Val) int {
	for i, kk := range mp.keys {
		if m.keyEq(kk, k) {
			return i
		}
	}
	return -1
}

func (m *Machine) typeAssert(fr *frame, i *ssa.TypeAssert) Val {
	x := m.get(fr, i.X)
	ok := false
	var inner Val
	if ifc, isI := x.(Iface); isI {
		if it, isIf := i.AssertedType.Underlying().(*types.Interface); isIf {
			if m.implements(ifc, it) {
				ok, inner = true, x
			}
		} else if types.Identical(ifc.typ, i.AssertedType) {
			ok, inner = true, ifc.v
		}
	}
	if i.CommaOk {
		if !ok {
			inner = zeroVal(i.AssertedType)
		}
		return Tuple{inner, cBool(ok)}
	}
	if !ok {
		m.tpanic("typeassert", "type assertion failed", i.Pos())
	}
	return inner
}

func (m *Machine) slice(fr *frame, i *ssa.Slice) Val {
	x := m.get(fr, i.X)
	lo, hi, mx := 0, -1, -1
	limit := 0
	switch xx := x.(type) {
	case Str:
		limit = xx.n
	case Slice:
		limit = xx.cap
	case Ptr:
		a, _ := xx.load().(*Array)
		if a == nil {
			unsupported("slice of pointer to %T", xx.load())
		}
		limit = a.size()
	case nil:
		m.tpanic("nil", "slice of nil pointer", i.Pos())
	}
	if i.Max != nil {
		mx = m.cIdx(m.get(fr, i.Max), limit, "slice", "slice max", i.Pos())
		limit = mx
	}
	if i.High != nil {
		hi = m.cIdx(m.get(fr, i.High), limit, "slice", "slice high bound", i.Pos())
	}
	if i.Low != nil {
		l2 := limit
		if hi >= 0 {
			l2 = hi
		} else if sl, ok := x.(Slice); ok {
			l2 = sl.len
		}
		lo = m.cIdx(m.get(fr, i.Low), l2, "slice", "slice low bound", i.Pos())
	}
	switch xx := x.(type) {
	case Str:
		if hi < 0 {
			hi = xx.n
		}
		if lo > hi {
			m.tpanic("slice", fmt.Sprintf("slice bounds out of range [%d:%d]", lo, hi), i.Pos())
		}
		if hi == lo {
			return Str{}
		}
		return Str{arr: xx.arr, off: xx.off + lo, n: hi - lo}
	case Slice:
		if hi < 0 {
			hi = xx.len
		}
		if lo > hi {
			m.tpanic("slice", fmt.Sprintf("slice bounds out of range [%d:%d]", lo, hi), i.Pos())
		}
		if xx.isNil && lo == 0 && hi == 0 {
			return xx
		}
		c := xx.cap - lo
		if mx >= 0 {
			c = mx - lo
		}
		return Slice{arr: xx.arr, off: xx.off + lo, len: hi - lo, cap: c}
	case Ptr:
		arr := xx.load().(*Array)
		n := arr.size()
		if hi < 0 {
			hi = n
		}
		if lo > hi {
			m.tpanic("slice", fmt.Sprintf("slice bounds out of range [%d:%d]", lo, hi), i.Pos())
		}
		c := n - lo
		if mx >= 0 {
			c = mx - lo
		}
		return Slice{arr: arr, off: lo, len: hi - lo, cap: c}
	}
	unsupported("slice of %T", x)
	return nil
}

func (m *Machine) convert(x Val, from, to types.Type) Val {
	if xi, ok := x.(Int); ok {
		if w, sg := widthOf(to); w > 0 {
			_, fs := widthOf(from)
			if xi.t == nil {
				v := xi.c
				if fs {
					v = uint64(sext64(xi.c, int(xi.w)))
				}
				return cInt(v, w, sg)
			}
			return m.mk(m.ctx.Resize(xi.t, w, fs), sg)
		}
		if isStringType(to) { // string(rune)
			if xi.t != nil {
				unsupported("string(symbolic rune)")
			}
			return mkStr(string(rune(sext64(xi.c, int(xi.w)))))
		}
		if tb, ok := to.Underlying().(*types.Basic); ok && tb.Info()&types.IsFloat != 0 {
			if xi.t != nil {
				unsupported("float(symbolic)")
			}
			if xi.sg {
				return float64(sext64(xi.c, int(xi.w)))
			}
			return float64(xi.c)
		}
	}
	if f, ok := x.(float64); ok {
		if w, sg := widthOf(to); w > 0 {
			if sg {
				return cInt(uint64(int64(f)), w, true)
			}
			return cInt(uint64(f), w, false)
		}
		return f
	}
	if isStringType(to) {
		if s, ok := x.(Slice); ok { // string([]byte)
			if s.len == 0 {
				return Str{}
			}
			if !s.arr.isByte {
				unsupported("string([]rune)")
			}
			a := newByteArray(s.len)
			copyRange(a, 0, s.arr, s.off, s.len)
			return Str{arr: a, n: s.len}
		}
		if s, ok := x.(Str); ok {
			return s
		}
	}
	if isStringType(from) {
		if ts, ok := to.Underlying().(*types.Slice); ok && isByteType(ts.Elem()) { // []byte(string)
			s := x.(Str)
			a := newByteArray(s.n)
			if s.n > 0 {
				copyRange(a, 0, s.arr, s.off, s.n)
			}
			return Slice{arr: a, len: s.n, cap: s.n}
		}
	}
	if _, ok := to.Underlying().(*types.Pointer); ok {
		return x // pointer conversions between identical underlying types
	}
	if _, ok := to.Underlying().(*types.Slice); ok {
		if _, ok := x.(Slice); ok {
			return x
		}
	}
	if b, ok := to.Underlying().(*types.Basic); ok && b.Kind() == types.UnsafePointer {
		return x
	}
	unsupported("convert %s -> %s", from, to)
	return nil
}

// ---------- strings ----------

func (m *Machine) strEq(a, b Str) *Term {
	if a.n != b.n {
		return m.ctx.ff
	}
	if !a.hasSym() && !b.hasSym() {
		return m.ctx.Bool(a.goStr() == b.goStr())
	}
	r := m.ctx.tt
	for i := 0; i < a.n; i++ {
		x, y := a.at(i), b.at(i)
		if x.t == nil && y.t == nil {
			if x.c != y.c {
				return m.ctx.ff
			}
			continue
		}
		r = m.ctx.And(r, m.ctx.Cmp(opEq, m.term(x), m.term(y)))
	}
	return r
}

// strLess builds a < b lexicographically as one term.
func (m *Machine) strLess(a, b Str) *Term {
	if !a.hasSym() && !b.hasSym() {
		return m.ctx.Bool(a.goStr() < b.goStr())
	}
	// build from the end so the term is linear
	n := a.n
	if b.n < n {
		n = b.n
	}
	r := m.ctx.Bool(a.n < b.n) // all common bytes equal: shorter is less
	for i := n - 1; i >= 0; i-- {
		x, y := a.at(i), b.at(i)
		if x.t == nil && y.t == nil {
			if x.c < y.c {
				r = m.ctx.tt
			} else if x.c > y.c {
				r = m.ctx.ff
			}
			continue
		}
		tx, ty := m.term(x), m.term(y)
		r = m.ctx.Or(m.ctx.Cmp(opUlt, tx, ty), m.ctx.And(m.ctx.Cmp(opEq, tx, ty), r))
	}
	return r
}

func (m *Machine) arrEq(a, b *Array) *Term {
	r := m.ctx.tt
	for i := 0; i < a.size(); i++ {
		switch x := a.get(i).(type) {
		case Int:
			r = m.ctx.And(r, m.ctx.Cmp(opEq, m.term(x), m.term(b.get(i).(Int))))
		case *Array:
			r = m.ctx.And(r, m.arrEq(x, b.get(i).(*Array)))
		default:
			unsupported("array equality over %T", x)
		}
	}
	return r
}

func (m *Machine) valEq(x, y Val) *Term {
	switch a := x.(type) {
	case Int:
		b := y.(Int)
		if a.t == nil && b.t == nil {
			return m.ctx.Bool(a.c == b.c)
		}
		return m.ctx.Cmp(opEq, m.term(a), m.term(b))
	case Str:
		return m.strEq(a, y.(Str))
	case *Array:
		return m.arrEq(a, y.(*Array))
	case StructV:
		b := y.(StructV)
		r := m.ctx.tt
		for k := range a.f {
			r = m.ctx.And(r, m.valEq(a.f[k], b.f[k]))
		}
		return r
	}
	return m.ctx.Bool(m.identEq(x, y))
}

func isNilVal(v Val) bool {
	switch q := v.(type) {
	case nil:
		return true
	case Slice:
		return q.isNil
	}
	return false
}

// identEq compares pointers, interfaces, funcs, maps by identity.
func (m *Machine) identEq(x, y Val) bool {
	if isNilVal(x) || isNilVal(y) {
		return isNilVal(x) && isNilVal(y)
	}
	switch a := x.(type) {
	case Ptr:
		b, ok := y.(Ptr)
		return ok && a == b
	case Iface:
		b, ok := y.(Iface)
		if !ok || !types.Identical(a.typ, b.typ) {
			return false
		}
		switch a.v.(type) {
		case Int, Str, *Array, StructV:
			t := m.valEq(a.v, b.v)
			return m.branch(t)
		}
		return m.identEq(a.v, b.v)
	case *MapV:
		b, ok := y.(*MapV)
		return ok && a == b
	}
	// native objects (files, errors, ...) compare by Go identity
	defer func() {
		if recover() != nil {
			unsupported("compare %T %T", x, y)
		}
	}()
	return x == y
}

func (m *Machine) binop(op token.Token, x, y Val, pos token.Pos) Val {
	switch xs := x.(type) {
	case Str:
		ys := y.(Str)
		switch op {
		case token.EQL:
			return m.mk(m.strEq(xs, ys), false)
		case token.NEQ:
			return m.mk(m.ctx.Not(m.strEq(xs, ys)), false)
		case token.LSS:
			return m.mk(m.strLess(xs, ys), false)
		case token.GTR:
			return m.mk(m.strLess(ys, xs), false)
		case token.LEQ:
			return m.mk(m.ctx.Not(m.strLess(ys, xs)), false)
		case token.GEQ:
			return m.mk(m.ctx.Not(m.strLess(xs, ys)), false)
		case token.ADD:
			if xs.n == 0 {
				return ys
			}
			if ys.n == 0 {
				return xs
			}
			a := newByteArray(xs.n + ys.n)
			copyRange(a, 0, xs.arr, xs.off, xs.n)
			copyRange(a, xs.n, ys.arr, ys.off, ys.n)
			return Str{arr: a, n: xs.n + ys.n}
		}
		unsupported("string binop %s", op)
	case *Array, StructV:
		e := m.valEq(x, y)
		if op == token.NEQ {
			e = m.ctx.Not(e)
		}
		return m.mk(e, false)
	case float64:
		ys := y.(float64)
		switch op {
		case token.ADD:
			return xs + ys
		case token.SUB:
			return xs - ys
		case token.MUL:
			return xs * ys
		case token.QUO:
			return xs / ys
		case token.LSS:
			return cBool(xs < ys)
		case token.GTR:
			return cBool(xs > ys)
		case token.LEQ:
			return cBool(xs <= ys)
		case token.GEQ:
			return cBool(xs >= ys)
		case token.EQL:
			return cBool(xs == ys)
		case token.NEQ:
			return cBool(xs != ys)
		}
	case Int:
		return m.intBinop(op, xs, y.(Int), pos)
	}
	eq := m.identEq(x, y)
	switch op {
	case token.EQL:
		return cBool(eq)
	case token.NEQ:
		return cBool(!eq)
	}
	unsupported("binop %s on %T", op, x)
	return nil
}

var cmpOps = map[token.Token][2]Op{ // unsigned, signed; swap/negate handled below
	token.LSS: {opUlt, opSlt}, token.LEQ: {opUle, opSle},
}

func (m *Machine) intBinop(op token.Token, xi, yi Int, pos token.Pos) Val {
	sg := xi.sg
	w := int(xi.w)
	if xi.t == nil && yi.t == nil {
		a, b := xi.c, yi.c
		if w == 0 {
			switch op {
			case token.EQL:
				return cBool(a == b)
			case token.NEQ:
				return cBool(a != b)
			case token.AND, token.LAND:
				return cBool(a&b != 0)
			case token.OR, token.LOR:
				return cBool(a|b != 0)
			}
			unsupported("bool binop %s", op)
		}
		sa, sb := sext64(a, w), sext64(b, int(yi.w))
		switch op {
		case token.ADD:
			return cInt(a+b, w, sg)
		case token.SUB:
			return cInt(a-b, w, sg)
		case token.MUL:
			return cInt(a*b, w, sg)
		case token.AND:
			return cInt(a&b, w, sg)
		case token.OR:
			return cInt(a|b, w, sg)
		case token.XOR:
			return cInt(a^b, w, sg)
		case token.AND_NOT:
			return cInt(a&^b, w, sg)
		case token.SHL, token.SHR:
			if yi.sg && sb < 0 {
				m.tpanic("shift", "negative shift amount", pos)
			}
			var r uint64
			if op == token.SHL {
				r, _ = foldBin(opShl, w, a, b)
			} else if sg {
				r, _ = foldBin(opAshr, w, a, b)
			} else {
				r, _ = foldBin(opLshr, w, a, b)
			}
			return cInt(r, w, sg)
		case token.EQL:
			return cBool(a == b)
		case token.NEQ:
			return cBool(a != b)
		case token.LSS:
			if sg {
				return cBool(sa < sb)
			}
			return cBool(a < b)
		case token.LEQ:
			if sg {
				return cBool(sa <= sb)
			}
			return cBool(a <= b)
		case token.GTR:
			if sg {
				return cBool(sa > sb)
			}
			return cBool(a > b)
		case token.GEQ:
			if sg {
				return cBool(sa >= sb)
			}
			return cBool(a >= b)
		case token.QUO, token.REM:
			if b == 0 {
				m.tpanic("divide", "integer divide by zero", pos)
			}
			o := map[bool]map[token.Token]Op{false: {token.QUO: opUdiv, token.REM: opUrem}, true: {token.QUO: opSdiv, token.REM: opSrem}}[sg][op]
			r, _ := foldBin(o, w, a, b)
			return cInt(r, w, sg)
		}
		unsupported("int binop %s", op)
	}
	tx, ty := m.term(xi), m.term(yi)
	c := m.ctx
	if w == 0 {
		switch op {
		case token.EQL:
			return m.mk(c.Cmp(opEq, tx, ty), false)
		case token.NEQ:
			return m.mk(c.Not(c.Cmp(opEq, tx, ty)), false)
		case token.AND:
			return m.mk(c.And(tx, ty), false)
		case token.OR:
			return m.mk(c.Or(tx, ty), false)
		}
		unsupported("bool binop %s", op)
	}
	bin := func(o Op) Val { return m.mk(c.Bin(o, tx, ty), sg) }
	cmp := func(u, s Op, swap, neg bool) Val {
		o := u
		if sg {
			o = s
		}
		a, b := tx, ty
		if swap {
			a, b = b, a
		}
		t := c.Cmp(o, a, b)
		if neg {
			t = c.Not(t)
		}
		return m.mk(t, false)
	}
	switch op {
	case token.ADD:
		return bin(opAdd)
	case token.SUB:
		return bin(opSub)
	case token.MUL:
		if xi.t != nil && yi.t != nil {
			m.notes = append(m.notes, "symbolic*symbolic multiplication at "+m.posStr(pos))
		}
		return bin(opMul)
	case token.AND:
		return bin(opBAnd)
	case token.OR:
		return bin(opBOr)
	case token.XOR:
		return bin(opBXor)
	case token.AND_NOT:
		return m.mk(c.Bin(opBAnd, tx, c.Bin(opBXor, ty, c.BV(w, mask(w)))), sg)
	case token.SHL, token.SHR:
		// Go: a count >= width gives 0 (or sign fill); SMT-LIB agrees for equal widths
		if yi.sg {
			if yi.t == nil {
				if sext64(yi.c, int(yi.w)) < 0 {
					m.tpanic("shift", "negative shift amount", pos)
				}
			} else if m.branch(c.Cmp(opSlt, ty, c.BV(int(yi.w), 0))) {
				m.tpanic("shift", "negative shift amount", pos)
			}
		}
		var cnt *Term
		switch {
		case int(yi.w) == w:
			cnt = ty
		case int(yi.w) < w:
			cnt = c.Resize(ty, w, false)
		default:
			// wider count: saturate at w
			big := c.Not(c.Cmp(opUlt, ty, c.BV(int(yi.w), uint64(w))))
			cnt = c.Ite(big, c.BV(w, uint64(w)), c.Resize(ty, w, false))
		}
		if op == token.SHL {
			return m.mk(c.Bin(opShl, tx, cnt), sg)
		}
		if sg {
			return m.mk(c.Bin(opAshr, tx, cnt), sg)
		}
		return m.mk(c.Bin(opLshr, tx, cnt), sg)
	case token.EQL:
		return m.mk(c.Cmp(opEq, tx, ty), false)
	case token.NEQ:
		return m.mk(c.Not(c.Cmp(opEq, tx, ty)), false)
	case token.LSS:
		return cmp(opUlt, opSlt, false, false)
	case token.LEQ:
		return cmp(opUle, opSle, false, false)
	case token.GTR:
		return cmp(opUlt, opSlt, true, false)
	case token.GEQ:
		return cmp(opUle, opSle, true, false)
	case token.QUO, token.REM:
		if yi.t == nil {
			if yi.c == 0 {
				m.tpanic("divide", "integer divide by zero", pos)
			}
		} else if m.branch(c.Cmp(opEq, ty, c.BV(w, 0))) {
			m.tpanic("divide", "integer divide by zero", pos)
		}
		o := map[bool]map[token.Token]Op{false: {token.QUO: opUdiv, token.REM: opUrem}, true: {token.QUO: opSdiv, token.REM: opSrem}}[sg][op]
		// division by a power of two becomes a shift / mask (unsigned only)
		if !sg && yi.t == nil && yi.c&(yi.c-1) == 0 {
			sh := 0
			for (uint64(1) << uint(sh)) != yi.c {
				sh++
			}
			if op == token.QUO {
				return m.mk(c.Bin(opLshr, tx, c.BV(w, uint64(sh))), sg)
			}
			return m.mk(c.Bin(opBAnd, tx, c.BV(w, yi.c-1)), sg)
		}
		return m.mk(c.intern(&Term{op: o, args: []*Term{tx, ty}, w: w}), sg)
	}
	unsupported("int binop %s", op)
	return nil
}

// ---------- calls ----------

func (m *Machine) doCall(fr *frame, c *ssa.Call) Val {
	args := make([]Val, len(c.Call.Args))
	for k, a := range c.Call.Args {
		args[k] = m.get(fr, a)
	}
	m.callPos = c.Pos()
	if c.Call.IsInvoke() {
		recv := m.get(fr, c.Call.Value)
		if recv == nil {
			m.tpanic("nil", "nil interface method call "+c.Call.Method.Name(), c.Pos())
		}
		return m.invoke(recv, c.Call.Method.Name(), args...)
	}
	switch f := c.Call.Value.(type) {
	case *ssa.Builtin:
		return m.builtin(f.Name(), args, c)
	case *ssa.Function:
		return m.call(f, args)
	}
	fv := m.get(fr, c.Call.Value)
	if fv == nil {
		m.tpanic("nil", "call of nil func", c.Pos())
	}
	return m.callValue(fv, args)
}

// invoke calls a method on an interface value.
func (m *Machine) invoke(recv Val, name string, args ...Val) Val {
	ifc := recv.(Iface)
	if r, ok := m.invokeNative(ifc.v, name, args); ok {
		return r
	}
	ms := m.eng.prog.MethodSets.MethodSet(ifc.typ)
	for i := 0; i < ms.Len(); i++ {
		if ms.At(i).Obj().Name() == name {
			fn := m.eng.prog.MethodValue(ms.At(i))
			if fn == nil {
				unsupported("abstract method %s on %s", name, ifc.typ)
			}
			return m.call(fn, append([]Val{ifc.v}, args...))
		}
	}
	unsupported("no method %s on %s (%T)", name, ifc.typ, ifc.v)
	return nil
}

func sliceCells(v Val) (arr *Array, off, n int) {
	switch s := v.(type) {
	case Slice:
		return s.arr, s.off, s.len
	case Str:
		return s.arr, s.off, s.n
	}
	unsupported("sliceCells of %T", v)
	return
}

func (m *Machine) builtin(name string, args []Val, c *ssa.Call) Val {
	switch name {
	case "len":
		switch x := args[0].(type) {
		case Slice:
			return goInt(x.len)
		case Str:
			return goInt(x.n)
		case *MapV:
			return goInt(len(x.keys))
		case nil:
			return goInt(0)
		case *Array:
			return goInt(x.size())
		}
	case "cap":
		switch x := args[0].(type) {
		case Slice:
			return goInt(x.cap)
		case *Array:
			return goInt(x.size())
		}
	case "recover":
		return nil
	case "delete":
		if mv, ok := args[0].(*MapV); ok {
			m.sharedWrite(mv, c.Pos())
			if k := m.mapFind(mv, args[1]); k >= 0 {
				mv.keys = append(mv.keys[:k:k], mv.keys[k+1:]...)
				mv.vals = append(mv.vals[:k:k], mv.vals[k+1:]...)
			}
		}
		return nil
	case "append":
		dst := args[0].(Slice)
		sarr, soff, sn := sliceCells(args[1])
		if sn == 0 {
			return dst
		}
		if dst.len+sn <= dst.cap && !dst.isNil {
			m.sharedWrite(dst.arr, c.Pos())
			copyRange(dst.arr, dst.off+dst.len, sarr, soff, sn)
			dst.len += sn
			return dst
		}
		nc := 2*dst.cap + sn
		if nc < 8 {
			nc = 8
		}
		el := c.Type().Underlying().(*types.Slice).Elem()
		a := newArrayFor(el, nc)
		if dst.len > 0 {
			copyRange(a, 0, dst.arr, dst.off, dst.len)
		}
		copyRange(a, dst.len, sarr, soff, sn)
		return Slice{arr: a, len: dst.len + sn, cap: nc}
	case "copy":
		dst := args[0].(Slice)
		sarr, soff, sn := sliceCells(args[1])
		n := dst.len
		if sn < n {
			n = sn
		}
		if n > 0 {
			m.sharedWrite(dst.arr, c.Pos())
			copyRange(dst.arr, dst.off, sarr, soff, n)
		}
		return goInt(n)
	case "min", "max":
		r := args[0]
		for _, a := range args[1:] {
			lt := m.binop(token.LSS, a, r, c.Pos()).(Int)
			var less bool
			if lt.t == nil {
				less = lt.c != 0
			} else {
				less = m.branch(lt.t)
			}
			if less == (name == "min") {
				r = a
			}
		}
		return r
	case "print", "println":
		return nil
	case "clear":
		switch x := args[0].(type) {
		case *MapV:
			x.keys, x.vals = nil, nil
			return nil
		}
	}
	unsupported("builtin %s on %T", name, args[0])
	return nil
}
