package main

import (
	"fmt"
	"os"
	"os/exec"
	"path/filepath"
	"sort"
	"strings"
	"sync"
)

// C15 (reduced scope, DESIGN.md 5/C15): leaf codec kernels of the C
// implementation are compiled with `clang -O1 -S -emit-llvm` from /repo/c on
// every run, interpreted by the small LLVM-IR front end (llir.go) that shares
// terms, solver and exploration with the Go executor, and compared with the Go
// kernels on the same symbolic input.

var (
	cmodOnce sync.Once
	cmod     *LModule
	cmodErr  error
)

// cSources lists the C files of /repo/c that make up the library proper (no
// tests, no CLI).
func cSources(cdir string) ([]string, error) {
	ents, err := os.ReadDir(cdir)
	if err != nil {
		return nil, err
	}
	var out []string
	for _, e := range ents {
		n := e.Name()
		if !strings.HasSuffix(n, ".c") || strings.HasSuffix(n, "_test.c") || n == "test_framework.c" || n == "dump.c" {
			continue
		}
		out = append(out, filepath.Join(cdir, n))
	}
	sort.Strings(out)
	return out, nil
}

func (e *Engine) cModule() (*LModule, error) {
	cmodOnce.Do(func() {
		tmp, err := os.MkdirTemp("", "symgo-cir-")
		if err != nil {
			cmodErr = err
			return
		}
		defer os.RemoveAll(tmp)
		cdir := filepath.Join(e.repoDir, "c")
		srcs, err := cSources(cdir)
		if err != nil {
			cmodErr = err
			return
		}
		srcs = append(srcs, filepath.Join(e.verifDir, "harness", "cshim.c"))
		var bcs []string
		for k, f := range srcs {
			out := filepath.Join(tmp, fmt.Sprintf("m%d.bc", k))
			cmd := exec.Command("clang", "-O1", "-w", "-emit-llvm", "-c", "-I"+cdir, "-I"+filepath.Join(cdir, "include"), f, "-o", out)
			if b, err := cmd.CombinedOutput(); err != nil {
				cmodErr = fmt.Errorf("clang %s: %v\n%s", f, err, b)
				return
			}
			bcs = append(bcs, out)
		}
		all := filepath.Join(tmp, "all.ll")
		if b, err := exec.Command("llvm-link", append([]string{"-S", "-o", all}, bcs...)...).CombinedOutput(); err != nil {
			cmodErr = fmt.Errorf("llvm-link: %v\n%s", err, b)
			return
		}
		func() {
			defer func() {
				if r := recover(); r != nil {
					cmodErr = fmt.Errorf("cannot parse the LLVM IR of /repo/c: %v", r)
				}
			}()
			cmod = ParseLL(all)
		}()
	})
	return cmod, cmodErr
}

// ---------- marshalling ----------

// cBytes copies a Go byte slice / string into a fresh C object (plus slack bytes, NUL filled).
func (m *Machine) cBytes(v Val, slack int) *LObj {
	arr, off, n := m.byteCells(v)
	o := m.cAlloc(n + slack)
	for k := 0; k < n; k++ {
		o.cells[k] = lcell{arr.get(off + k).(Int), 1}
	}
	for k := n; k < n+slack; k++ {
		o.cells[k] = lcell{cInt(0, 8, false), 1}
	}
	return o
}

// cBack copies n bytes of a C object back into a Go byte slice.
func (m *Machine) cBack(o *LObj, dst Slice, n int) {
	for k := 0; k < n && k < dst.len; k++ {
		if c, ok := o.cells[k]; ok && c.size == 1 {
			dst.arr.set(dst.off+k, c.v.(Int))
		}
	}
}

// cStrbuf builds a struct strbuf {len, alloc, buf, canary} over the bytes.
func (m *Machine) cStrbuf(v Val) *LObj {
	_, _, n := m.byteCells(v)
	data := m.cBytes(v, 1)
	sb := m.cAlloc(32)
	m.lstore(LPtr{sb, 0}, cInt(uint64(n), 64, false), 8)
	m.lstore(LPtr{sb, 8}, cInt(uint64(n+1), 64, false), 8)
	m.lstore(LPtr{sb, 16}, LPtr{data, 0}, 8)
	m.lstore(LPtr{sb, 24}, cInt(0x42, 8, false), 1) // STRBUF_CANARY
	return sb
}

func (m *Machine) cEmptyStrbuf() *LObj {
	sb := m.cAlloc(32)
	m.lstore(LPtr{sb, 0}, cInt(0, 64, false), 8)
	m.lstore(LPtr{sb, 8}, cInt(0, 64, false), 8)
	m.lstore(LPtr{sb, 16}, LPtr{}, 8)
	m.lstore(LPtr{sb, 24}, cInt(0x42, 8, false), 1) // STRBUF_CANARY
	return sb
}

// strbufBytes reads back the content of a struct strbuf as a Go string value.
func (m *Machine) strbufStr(sb *LObj) Str {
	n := m.cConc(m.lload(LPtr{sb, 0}, 8, false), "strbuf len")
	if n == 0 {
		return Str{}
	}
	p := m.lload(LPtr{sb, 16}, 8, true).(LPtr)
	a := newByteArray(n)
	for k := 0; k < n; k++ {
		a.set(k, m.lload(LPtr{p.obj, p.off + k}, 1, false).(Int))
	}
	return Str{arr: a, n: n}
}

func (m *Machine) cRet(v interface{}) Int {
	i := v.(Int)
	if i.t == nil {
		return cInt(uint64(sext64(i.c, int(i.w))), 64, true)
	}
	return m.mk(m.ctx.Resize(i.t, 64, true), true)
}

// cIntrinsic implements the VerifC_* harness functions.
func (m *Machine) cIntrinsic(name string, args []Val) (Val, bool) {
	mod, err := m.eng.cModule()
	if err != nil {
		unsupported("C kernels unavailable: %v", err)
	}
	switch name {
	case "VerifC_put_var_int": // (buf []byte, v uint64) int
		gs := args[0].(Slice)
		bo := m.cBytes(gs, 0)
		sv := m.cAlloc(16)
		m.lstore(LPtr{sv, 0}, LPtr{bo, 0}, 8)
		m.lstore(LPtr{sv, 8}, cInt(uint64(gs.len), 64, false), 8)
		r := m.CallC(mod, "put_var_int", []interface{}{LPtr{sv, 0}, args[1].(Int)})
		m.cBack(bo, gs, gs.len)
		return m.cRet(r), true
	case "VerifC_get_var_int": // (buf []byte) (uint64, int)
		gs := args[0].(Slice)
		bo := m.cBytes(gs, 0)
		sv := m.cAlloc(16)
		m.lstore(LPtr{sv, 0}, LPtr{bo, 0}, 8)
		m.lstore(LPtr{sv, 8}, cInt(uint64(gs.len), 64, false), 8)
		dest := m.cAlloc(8)
		m.lstore(LPtr{dest, 0}, cInt(0, 64, false), 8)
		r := m.CallC(mod, "get_var_int", []interface{}{LPtr{dest, 0}, LPtr{sv, 0}})
		v := m.lload(LPtr{dest, 0}, 8, false).(Int)
		v.sg = false
		return Tuple{v, m.cRet(r)}, true
	case "VerifC_encode_key": // (buf []byte, prev, key string, extra uint8) (n int, restart bool)
		gs := args[0].(Slice)
		bo := m.cBytes(gs, 0)
		restart := m.cAlloc(4)
		m.lstore(LPtr{restart, 0}, cInt(0, 32, false), 4)
		r := m.CallC(mod, "reftable_encode_key", []interface{}{LPtr{restart, 0}, LPtr{bo, 0}, cInt(uint64(gs.len), 64, false),
			LPtr{m.cStrbuf(args[1]), 0}, LPtr{m.cStrbuf(args[2]), 0}, args[3].(Int)})
		m.cBack(bo, gs, gs.len)
		rs := m.lload(LPtr{restart, 0}, 4, false).(Int)
		return Tuple{m.cRet(r), m.mk(m.ctx.Not(m.ctx.Cmp(opEq, m.term(rs), m.ctx.BV(32, 0))), false)}, true
	case "VerifC_decode_key": // (buf []byte, prev string) (n int, key string, extra uint8)
		gs := args[0].(Slice)
		bo := m.cBytes(gs, 0)
		key := m.cEmptyStrbuf()
		extra := m.cAlloc(1)
		m.lstore(LPtr{extra, 0}, cInt(0, 8, false), 1)
		r := m.CallC(mod, "reftable_decode_key", []interface{}{LPtr{key, 0}, LPtr{extra, 0}, LPtr{m.cStrbuf(args[1]), 0},
			LPtr{bo, 0}, cInt(uint64(gs.len), 64, false)})
		ex := m.lload(LPtr{extra, 0}, 1, false).(Int)
		return Tuple{m.cRet(r), m.strbufStr(key), ex}, true
	case "VerifC_ref_encode": // (buf []byte, updateIndex uint64, valType int, v1, v2 []byte, target string, hashSize int) int
		gs := args[0].(Slice)
		bo := m.cBytes(gs, 0)
		vt := m.cInt(args[2], "value type")
		rec := m.cAlloc(40)
		m.lstore(LPtr{rec, 0}, LPtr{m.cBytes(mkStr("n"), 1), 0}, 8)
		m.lstore(LPtr{rec, 8}, args[1].(Int), 8)
		m.lstore(LPtr{rec, 16}, cInt(uint64(vt), 32, false), 4)
		m.lstore(LPtr{rec, 20}, cInt(0, 32, false), 4)
		m.lstore(LPtr{rec, 24}, LPtr{}, 8)
		m.lstore(LPtr{rec, 32}, LPtr{}, 8)
		switch vt {
		case 1:
			m.lstore(LPtr{rec, 24}, LPtr{m.cBytes(args[3], 0), 0}, 8)
		case 2:
			m.lstore(LPtr{rec, 24}, LPtr{m.cBytes(args[3], 0), 0}, 8)
			m.lstore(LPtr{rec, 32}, LPtr{m.cBytes(args[4], 0), 0}, 8)
		case 3:
			m.lstore(LPtr{rec, 24}, LPtr{m.cBytes(args[5], 1), 0}, 8)
		}
		hs := args[6].(Int)
		r := m.CallC(mod, "reftable_ref_record_encode", []interface{}{LPtr{rec, 0}, LPtr{bo, 0}, cInt(uint64(gs.len), 64, false), cInt(hs.c, 32, false)})
		m.cBack(bo, gs, gs.len)
		return m.cRet(r), true
	case "VerifC_scan": // (table []byte, mode int, arg []byte, idx uint64, outcap int) ([]byte, int)
		tab := args[0].(Slice)
		to := m.cBytes(tab, 0)
		to.what = "table bytes"
		ao := m.cBytes(args[2], 1)
		ao.what = "scan argument"
		capn := m.cInt(args[4], "output capacity")
		out := m.cAlloc(capn)
		out.what = "scan output"
		r := m.CallC(mod, "shim_scan", []interface{}{LPtr{to, 0}, cInt(uint64(tab.len), 64, false), cInt(uint64(m.cInt(args[1], "mode")), 32, false),
			LPtr{ao, 0}, args[3].(Int), LPtr{out, 0}, cInt(uint64(capn), 64, false)})
		n := m.cConc(r, "scan result length")
		if os.Getenv("VERIF_CDEBUG") != "" {
			fmt.Fprintf(os.Stderr, "CDEBUG scan mode=%v n=%d out=%s\n", args[1], n, m.cDump(out, n, capn))
		}
		return Tuple{m.cOut(out, n, capn), goInt(n)}, true
	case "VerifC_stack_scan": // (dir string, flags, mode int, arg []byte, idx uint64, outcap int) ([]byte, int)
		dirO := m.cBytes(args[0], 1)
		dirO.what = "directory name"
		ao := m.cBytes(args[3], 1)
		ao.what = "scan argument"
		capn := m.cInt(args[5], "output capacity")
		out := m.cAlloc(capn)
		out.what = "scan output"
		r := m.CallC(mod, "shim_stack_scan", []interface{}{LPtr{dirO, 0}, cInt(uint64(m.cInt(args[1], "flags")), 32, false), cInt(uint64(m.cInt(args[2], "mode")), 32, false),
			LPtr{ao, 0}, args[4].(Int), LPtr{out, 0}, cInt(uint64(capn), 64, false)})
		n := m.cConc(r, "scan result length")
		if os.Getenv("VERIF_CDEBUG") != "" {
			fmt.Fprintf(os.Stderr, "CDEBUG stackscan mode=%v n=%d out=%s\n", args[2], n, m.cDump(out, n, capn))
		}
		return Tuple{m.cOut(out, n, capn), goInt(n)}, true
	case "VerifC_stack_op": // (dir string, flags int, blockSize uint32, op int, desc []byte) int
		dirO := m.cBytes(args[0], 1)
		dirO.what = "directory name"
		ds := args[4].(Slice)
		do := m.cBytes(ds, 0)
		do.what = "record stream"
		r := m.CallC(mod, "shim_stack_op", []interface{}{LPtr{dirO, 0}, cInt(uint64(m.cInt(args[1], "flags")), 32, false), cInt(uint64(m.cInt(args[2], "block size")), 32, false),
			cInt(uint64(m.cInt(args[3], "op")), 32, false), LPtr{do, 0}, cInt(uint64(ds.len), 64, false)})
		return m.cRet(r), true
	case "VerifC_write": // (desc []byte, blockSize uint32, restartInterval int, flags int, min, max uint64, outcap int) ([]byte, int)
		ds := args[0].(Slice)
		do := m.cBytes(ds, 0)
		do.what = "record stream"
		capn := m.cInt(args[6], "output capacity")
		out := m.cAlloc(capn)
		out.what = "table output"
		r := m.CallC(mod, "shim_write", []interface{}{LPtr{do, 0}, cInt(uint64(ds.len), 64, false), cInt(uint64(m.cInt(args[1], "block size")), 32, false),
			cInt(uint64(m.cInt(args[2], "restart interval")), 32, false), cInt(uint64(m.cInt(args[3], "flags")), 32, false),
			args[4].(Int), args[5].(Int), LPtr{out, 0}, cInt(uint64(capn), 64, false)})
		n := m.cConc(r, "table size")
		return Tuple{m.cOut(out, n, capn), goInt(n)}, true
	}
	return nil, false
}

// cOut returns the first min(n, cap) bytes of a C output buffer as a Go byte slice.
func (m *Machine) cOut(o *LObj, n, capn int) Slice {
	if n < 0 {
		n = 0
	}
	if n > capn {
		n = capn
	}
	a := newByteArray(n)
	for k := 0; k < n; k++ {
		a.set(k, m.lload(LPtr{o, k}, 1, false).(Int))
	}
	return Slice{arr: a, len: n, cap: n}
}

func (m *Machine) cDump(o *LObj, n, capn int) string {
	if n > capn {
		n = capn
	}
	var sb strings.Builder
	for k := 0; k < n; k++ {
		c, ok := o.cells[k]
		if !ok {
			sb.WriteString("__")
			continue
		}
		if iv, isInt := c.v.(Int); isInt && iv.t == nil {
			fmt.Fprintf(&sb, "%02x", iv.c)
		} else {
			sb.WriteString("??")
		}
	}
	return sb.String()
}
