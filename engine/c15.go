package main

import (
	"fmt"
	"os"
	"os/exec"
	"path/filepath"
	"sync"
)

// C15 (reduced scope, DESIGN.md 5/C15): leaf codec kernels of the C
// implementation are compiled with `clang -O1 -S -emit-llvm` from /repo/c on
// every run, interpreted by the small LLVM-IR front end (llir.go) that shares
// terms, solver and exploration with the Go executor, and compared with the Go
// kernels on the same symbolic input.

var (
	cmodOnce sync.Once
	cmod     *LModule
	cmodErr  error
)

func (e *Engine) cModule() (*LModule, error) {
	cmodOnce.Do(func() {
		tmp, err := os.MkdirTemp("", "symgo-cir-")
		if err != nil {
			cmodErr = err
			return
		}
		defer os.RemoveAll(tmp)
		cdir := filepath.Join(e.repoDir, "c")
		mod := &LModule{structs: map[string]*LType{}, funcs: map[string]*LFunc{}}
		for _, f := range []string{"record", "basics", "strbuf"} {
			out := filepath.Join(tmp, f+".ll")
			cmd := exec.Command("clang", "-O1", "-S", "-emit-llvm", "-I"+cdir, "-I"+filepath.Join(cdir, "include"), filepath.Join(cdir, f+".c"), "-o", out)
			if b, err := cmd.CombinedOutput(); err != nil {
				cmodErr = fmt.Errorf("clang %s.c: %v\n%s", f, err, b)
				return
			}
			func() {
				defer func() {
					if r := recover(); r != nil {
						cmodErr = fmt.Errorf("cannot parse LLVM IR of %s.c: %v", f, r)
					}
				}()
				m2 := ParseLL(out)
				for k, v := range m2.structs {
					if old, ok := mod.structs[k]; ok && len(old.fields) > 0 {
						continue
					}
					mod.structs[k] = v
				}
				for k, v := range m2.funcs {
					mod.funcs[k] = v
				}
			}()
			if cmodErr != nil {
				return
			}
		}
		cmod = mod
	})
	return cmod, cmodErr
}

// ---------- marshalling ----------

func (m *Machine) cAlloc(n int) *LObj {
	m.cheap += 1 << 26
	return &LObj{base: m.cheap, cells: map[int]lcell{}, size: n}
}

// cBytes copies a Go byte slice / string into a fresh C object (plus slack bytes, NUL filled).
func (m *Machine) cBytes(v Val, slack int) *LObj {
	arr, off, n := m.byteCells(v)
	o := m.cAlloc(n + slack)
	for k := 0; k < n; k++ {
		o.cells[k] = lcell{arr.get(off + k).(Int), 1}
	}
	for k := n; k < n+slack; k++ {
		o.cells[k] = lcell{cInt(0, 8, false), 1}
	}
	return o
}

// cBack copies n bytes of a C object back into a Go byte slice.
func (m *Machine) cBack(o *LObj, dst Slice, n int) {
	for k := 0; k < n && k < dst.len; k++ {
		if c, ok := o.cells[k]; ok && c.size == 1 {
			dst.arr.set(dst.off+k, c.v.(Int))
		}
	}
}

// cStrbuf builds a struct strbuf {len, alloc, buf, canary} over the bytes.
func (m *Machine) cStrbuf(v Val) *LObj {
	_, _, n := m.byteCells(v)
	data := m.cBytes(v, 1)
	sb := m.cAlloc(32)
	m.lstore(LPtr{sb, 0}, cInt(uint64(n), 64, false), 8)
	m.lstore(LPtr{sb, 8}, cInt(uint64(n+1), 64, false), 8)
	m.lstore(LPtr{sb, 16}, LPtr{data, 0}, 8)
	m.lstore(LPtr{sb, 24}, cInt(0x42, 8, false), 1) // STRBUF_CANARY
	return sb
}

func (m *Machine) cEmptyStrbuf() *LObj {
	sb := m.cAlloc(32)
	m.lstore(LPtr{sb, 0}, cInt(0, 64, false), 8)
	m.lstore(LPtr{sb, 8}, cInt(0, 64, false), 8)
	m.lstore(LPtr{sb, 16}, LPtr{}, 8)
	m.lstore(LPtr{sb, 24}, cInt(0x42, 8, false), 1) // STRBUF_CANARY
	return sb
}

// strbufBytes reads back the content of a struct strbuf as a Go string value.
func (m *Machine) strbufStr(sb *LObj) Str {
	n := m.cConc(m.lload(LPtr{sb, 0}, 8, false), "strbuf len")
	if n == 0 {
		return Str{}
	}
	p := m.lload(LPtr{sb, 16}, 8, true).(LPtr)
	a := newByteArray(n)
	for k := 0; k < n; k++ {
		a.set(k, m.lload(LPtr{p.obj, p.off + k}, 1, false).(Int))
	}
	return Str{arr: a, n: n}
}

func (m *Machine) cRet(v interface{}) Int {
	i := v.(Int)
	if i.t == nil {
		return cInt(uint64(sext64(i.c, int(i.w))), 64, true)
	}
	return m.mk(m.ctx.Resize(i.t, 64, true), true)
}

// cIntrinsic implements the VerifC_* harness functions.
func (m *Machine) cIntrinsic(name string, args []Val) (Val, bool) {
	mod, err := m.eng.cModule()
	if err != nil {
		unsupported("C kernels unavailable: %v", err)
	}
	switch name {
	case "VerifC_put_var_int": // (buf []byte, v uint64) int
		gs := args[0].(Slice)
		bo := m.cBytes(gs, 0)
		sv := m.cAlloc(16)
		m.lstore(LPtr{sv, 0}, LPtr{bo, 0}, 8)
		m.lstore(LPtr{sv, 8}, cInt(uint64(gs.len), 64, false), 8)
		r := m.CallC(mod, "put_var_int", []interface{}{LPtr{sv, 0}, args[1].(Int)})
		m.cBack(bo, gs, gs.len)
		return m.cRet(r), true
	case "VerifC_get_var_int": // (buf []byte) (uint64, int)
		gs := args[0].(Slice)
		bo := m.cBytes(gs, 0)
		sv := m.cAlloc(16)
		m.lstore(LPtr{sv, 0}, LPtr{bo, 0}, 8)
		m.lstore(LPtr{sv, 8}, cInt(uint64(gs.len), 64, false), 8)
		dest := m.cAlloc(8)
		m.lstore(LPtr{dest, 0}, cInt(0, 64, false), 8)
		r := m.CallC(mod, "get_var_int", []interface{}{LPtr{dest, 0}, LPtr{sv, 0}})
		v := m.lload(LPtr{dest, 0}, 8, false).(Int)
		v.sg = false
		return Tuple{v, m.cRet(r)}, true
	case "VerifC_encode_key": // (buf []byte, prev, key string, extra uint8) (n int, restart bool)
		gs := args[0].(Slice)
		bo := m.cBytes(gs, 0)
		restart := m.cAlloc(4)
		m.lstore(LPtr{restart, 0}, cInt(0, 32, false), 4)
		r := m.CallC(mod, "reftable_encode_key", []interface{}{LPtr{restart, 0}, LPtr{bo, 0}, cInt(uint64(gs.len), 64, false),
			LPtr{m.cStrbuf(args[1]), 0}, LPtr{m.cStrbuf(args[2]), 0}, args[3].(Int)})
		m.cBack(bo, gs, gs.len)
		rs := m.lload(LPtr{restart, 0}, 4, false).(Int)
		return Tuple{m.cRet(r), m.mk(m.ctx.Not(m.ctx.Cmp(opEq, m.term(rs), m.ctx.BV(32, 0))), false)}, true
	case "VerifC_decode_key": // (buf []byte, prev string) (n int, key string, extra uint8)
		gs := args[0].(Slice)
		bo := m.cBytes(gs, 0)
		key := m.cEmptyStrbuf()
		extra := m.cAlloc(1)
		m.lstore(LPtr{extra, 0}, cInt(0, 8, false), 1)
		r := m.CallC(mod, "reftable_decode_key", []interface{}{LPtr{key, 0}, LPtr{extra, 0}, LPtr{m.cStrbuf(args[1]), 0},
			LPtr{bo, 0}, cInt(uint64(gs.len), 64, false)})
		ex := m.lload(LPtr{extra, 0}, 1, false).(Int)
		return Tuple{m.cRet(r), m.strbufStr(key), ex}, true
	case "VerifC_ref_encode": // (buf []byte, updateIndex uint64, valType int, v1, v2 []byte, target string, hashSize int) int
		gs := args[0].(Slice)
		bo := m.cBytes(gs, 0)
		vt := m.cInt(args[2], "value type")
		rec := m.cAlloc(40)
		m.lstore(LPtr{rec, 0}, LPtr{m.cBytes(mkStr("n"), 1), 0}, 8)
		m.lstore(LPtr{rec, 8}, args[1].(Int), 8)
		m.lstore(LPtr{rec, 16}, cInt(uint64(vt), 32, false), 4)
		m.lstore(LPtr{rec, 20}, cInt(0, 32, false), 4)
		m.lstore(LPtr{rec, 24}, LPtr{}, 8)
		m.lstore(LPtr{rec, 32}, LPtr{}, 8)
		switch vt {
		case 1:
			m.lstore(LPtr{rec, 24}, LPtr{m.cBytes(args[3], 0), 0}, 8)
		case 2:
			m.lstore(LPtr{rec, 24}, LPtr{m.cBytes(args[3], 0), 0}, 8)
			m.lstore(LPtr{rec, 32}, LPtr{m.cBytes(args[4], 0), 0}, 8)
		case 3:
			m.lstore(LPtr{rec, 24}, LPtr{m.cBytes(args[5], 1), 0}, 8)
		}
		hs := args[6].(Int)
		r := m.CallC(mod, "reftable_ref_record_encode", []interface{}{LPtr{rec, 0}, LPtr{bo, 0}, cInt(uint64(gs.len), 64, false), cInt(hs.c, 32, false)})
		m.cBack(bo, gs, gs.len)
		return m.cRet(r), true
	}
	return nil, false
}
