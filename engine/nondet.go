package main

import (
	"fmt"
	"go/token"
	"strings"

	"golang.org/x/tools/go/ssa"
)

type fnT = *ssa.Function
type ssaGlobal = ssa.Global

// vector returns the nondet results of this path in call order under the
// given model; inputs the model leaves unconstrained are completed from the
// seed.
func (m *Machine) vector(md *modelT) []int64 {
	out := make([]int64, len(m.inputs))
	for i, in := range m.inputs {
		if in.t == nil {
			out[i] = in.val
			continue
		}
		v, got := uint64(0), false
		if md != nil {
			v, got = md.vals[in.t]
		}
		if !got {
			// not mentioned in any constraint: any value will do
			v = m.eng.fill(i) & mask(in.t.w)
			if in.t.w == 0 {
				v &= 1
			}
		}
		out[i] = int64(v)
	}
	return out
}

// violate records a violation together with a concrete witness of the
// current path condition (plus the extra literal, if any).  It returns
// whether a witness exists.
func (m *Machine) violate(v Violation, extra ...*Term) bool {
	if m.replaying() {
		return false // found (and recorded) by the ancestor path that first got here
	}
	var md *modelT
	if len(extra) == 0 {
		md = m.fullModel()
	} else {
		// a cached model falsifying the assertion is a witness already
		for _, c := range m.models {
			all := true
			for _, e := range extra {
				if x, ok := c.eval(e); !ok || x != 1 {
					all = false
				}
			}
			if all {
				md = c
			}
		}
		if md == nil {
			r, vals, groups := m.query(extra)
			if r != "sat" {
				return false
			}
			md = m.extend(vals, groups, extra)
		}
	}
	if md == nil {
		panic(pathAbort{"unknown: could not extract a model for a counterexample"})
	}
	v.Vector = m.vector(md)
	v.Decisions = append([]int64{}, m.decisions...)
	if m.fs != nil && v.Trace == nil {
		v.Trace = append([]string{}, m.fs.trace...)
	}
	if v.Fn == "" {
		if n := len(m.curFn); n > 0 {
			v.Fn = m.curFn[n-1].String()
		}
	}
	m.viols = append(m.viols, v)
	return true
}

func (m *Machine) nondetIntrinsic(name string, args []Val) (Val, bool) {
	if strings.HasPrefix(name, "VerifC_") {
		return m.cIntrinsic(name, args)
	}
	c := m.ctx
	sym := func(kind string, w int) Val {
		t := m.fresh(kind, w)
		m.inputs = append(m.inputs, nondetRec{kind: kind, t: t})
		return Int{t: t, w: uint8(w)}
	}
	switch name {
	case "VerifU64":
		return sym("u64", 64), true
	case "VerifU32":
		return sym("u32", 32), true
	case "VerifU16":
		return sym("u16", 16), true
	case "VerifU8":
		return sym("u8", 8), true
	case "VerifBool":
		return sym("b", 0), true
	case "VerifIntRange":
		lo, hi := m.cInt(args[0], name), m.cInt(args[1], name)
		k := m.decide(hi - lo + 1)
		m.inputs = append(m.inputs, nondetRec{kind: "range", val: int64(lo + k)})
		return goInt(lo + k), true
	case "VerifChoose":
		n := m.cInt(args[0], name)
		k := m.decide(n)
		m.inputs = append(m.inputs, nondetRec{kind: "choose", val: int64(k)})
		return goInt(k), true
	case "VerifTier":
		return goInt(m.eng.tier), true
	case "VerifSymbolic":
		return cBool(true), true
	case "VerifTempDir":
		m.needFS()
		return mkStr("/d"), true
	case "VerifAssume":
		x := args[0].(Int)
		if x.t == nil {
			if x.c == 0 {
				panic(pathAbort{"infeasible"})
			}
			return nil, true
		}
		if m.pcSet[x.t] {
			return nil, true
		}
		if !m.replaying() {
			if !m.feasible(x.t) {
				panic(pathAbort{"infeasible"})
			}
		}
		m.assume(x.t)
		return nil, true
	case "VerifAssert":
		x := args[0].(Int)
		label := m.goString(args[1], name)
		m.h.noteAssert(label)
		if x.t == nil {
			if x.c == 0 {
				m.violate(Violation{Kind: "assert", Label: label, Pos: m.posStr(m.callPos)})
				panic(pathAbort{"violation"})
			}
			return nil, true
		}
		if m.pcSet[x.t] {
			return nil, true
		}
		if !m.replaying() {
			m.h.nObligations++
			// a cached model falsifying the assertion still goes through the
			// solver (violate), which extracts the counterexample
			if m.violate(Violation{Kind: "assert", Label: label, Pos: m.posStr(m.callPos)}, c.Not(x.t)) {
				if !m.feasible(x.t) {
					panic(pathAbort{"violation"}) // the assertion fails on the whole path
				}
			}
		}
		m.assume(x.t)
		return nil, true
	case "VerifCover":
		m.covers = append(m.covers, m.goString(args[0], name))
		return nil, true
	case "VerifObserve":
		// values are recorded for the concolic cross-check (concrete ones only)
		label := m.goString(args[0], name)
		sl := args[1].(Slice)
		parts := []string{label}
		for i := 0; i < sl.len; i++ {
			parts = append(parts, fmt.Sprint(m.nativeOf(sl.arr.cells[sl.off+i])))
		}
		m.observes = append(m.observes, strings.Join(parts, " "))
		return nil, true
	case "VerifSpawn":
		if m.sched == nil {
			m.sched = &Sched{}
		}
		m.sched.threads = append(m.sched.threads, &thread{id: len(m.sched.threads) + 1, body: args[0].(*Closure)})
		return nil, true
	case "VerifSpawnCrashable":
		if m.sched == nil {
			m.sched = &Sched{}
		}
		m.sched.threads = append(m.sched.threads, &thread{id: len(m.sched.threads) + 1, body: args[0].(*Closure), crashable: true})
		return nil, true
	case "VerifRun":
		m.runThreads(m.cInt(args[0], name), false)
		return nil, true
	case "VerifRunAt":
		// deep but narrow: preemption only at the steps of one class
		if m.sched != nil {
			m.sched.onlyAt = m.goString(args[1], name)
		}
		m.runThreads(m.cInt(args[0], name), false)
		if m.sched != nil {
			m.sched.onlyAt = ""
		}
		return nil, true
	case "VerifRunAllSteps":
		m.runThreads(m.cInt(args[0], name), true)
		return nil, true
	case "VerifCrashed":
		// reports whether the crashable thread of the last VerifRun was abandoned
		return cBool(m.lastCrashed), true
	case "VerifAs":
		m.mainProc = m.cInt(args[0], name)
		return nil, true
	case "VerifMonitor":
		m.needFS().monitors[m.goString(args[0], name)] = true
		return nil, true
	case "VerifCommits":
		fs := m.needFS()
		cells := make([]Val, len(fs.commits))
		for i, cr := range fs.commits {
			cells[i] = goInt(cr.proc)
		}
		return Slice{arr: &Array{cells: cells}, len: len(cells), cap: len(cells)}, true
	case "VerifDirNames":
		m.needFS()
		names := m.dirNames()
		cells := make([]Val, len(names))
		for i, n := range names {
			cells[i] = mkStr(n)
		}
		return Slice{arr: &Array{cells: cells}, len: len(cells), cap: len(cells)}, true
	case "VerifMaxSteps":
		// a harness that runs one long concrete computation raises the per-path instruction budget
		m.maxSteps = m.cInt(args[0], name)
		return nil, true
	case "VerifAllocBudget":
		m.allocLimit = m.allocBytes + int64(m.cInt(args[0], name))
		return nil, true
	case "VerifAllocEnd":
		m.allocLimit = 0
		return nil, true
	case "VerifFaultReadFile":
		m.faultRead = m.cInt(args[0], name)
		return nil, true
	case "VerifFaultOpen":
		m.faultOpen = m.cInt(args[0], name)
		return nil, true
	case "VerifStepBudget":
		// from here on, running more than n further instructions is a "hang"
		m.hangLimit = m.steps + m.cInt(args[0], name)
		return nil, true
	case "VerifQuiet":
		// harness-level filesystem inspection: not part of the compared step trace
		old := m.quietFS
		m.quietFS = true
		m.callValue(args[0], nil)
		m.quietFS = old
		return nil, true
	case "VerifShared":
		f := args[0]
		// package-level state of the code under test is shared by all goroutines too
		for _, mem := range m.eng.pkg.Members {
			g, ok := mem.(*ssa.Global)
			if !ok || strings.HasPrefix(g.Name(), "init$") {
				continue
			}
			if fn := m.eng.prog.Fset.Position(g.Pos()).Filename; strings.Contains(fn, "zz_verif_") {
				continue
			}
			m.freeze(m.global(g))
		}
		m.quietFS = true // steps of the two runs are not part of the compared trace
		r0 := m.callValue(f, []Val{goInt(0)})
		r1 := m.callValue(f, []Val{goInt(1)})
		m.quietFS = false
		// the two runs must agree
		eq := m.strEq(r0.(Str), r1.(Str))
		m.h.noteAssert("concurrent-reads-differ")
		if !eq.isTrue() {
			if eq.isFalse() {
				m.violate(Violation{Kind: "assert", Label: "concurrent-reads-differ", Pos: m.posStr(m.callPos)})
				panic(pathAbort{"violation"})
			}
			if !m.replaying() {
				if m.violate(Violation{Kind: "assert", Label: "concurrent-reads-differ", Pos: m.posStr(m.callPos)}, c.Not(eq)) && !m.feasible(eq) {
					panic(pathAbort{"violation"})
				}
			}
			m.assume(eq)
		}
		return nil, true
	case "VerifFreeze":
		m.freeze(args[0])
		return nil, true
	}
	return nil, false
}

// freeze marks every object reachable from v as shared (C19 frame condition).
func (m *Machine) freeze(v Val) {
	if m.frozen == nil {
		m.frozen = map[interface{}]bool{}
	}
	var walk func(v Val)
	walkLoc := func(loc *Val) {
		if m.frozen[loc] {
			return
		}
		m.frozen[loc] = true
		walk(*loc)
	}
	walk = func(v Val) {
		switch x := v.(type) {
		case Ptr:
			if x.loc != nil {
				walkLoc(x.loc)
			} else if !m.frozen[x.arr] {
				m.frozen[x.arr] = true
			}
		case StructV:
			for k := range x.f {
				walkLoc(&x.f[k])
			}
		case *Array:
			if m.frozen[x] {
				return
			}
			m.frozen[x] = true
			if !x.isByte {
				for k := range x.cells {
					walkLoc(&x.cells[k])
				}
			}
		case Slice:
			if x.arr != nil {
				walk(x.arr)
			}
		case Iface:
			walk(x.v)
		case *MapV:
			if m.frozen[x] {
				return
			}
			m.frozen[x] = true
			for _, k := range x.keys {
				walk(k)
			}
			for k := range x.vals {
				walkLoc(&x.vals[k])
			}
		case *Closure:
			for _, b := range x.bind {
				walk(b)
			}
		case *fileObj:
			x.frozen = true
			m.frozen[x] = true
		}
	}
	walk(v)
}

var _ = token.NoPos
