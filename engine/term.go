package main

import (
	"fmt"
	"strconv"
	"strings"
)

// Terms are hash-consed per worker (TermCtx); w==0 means Bool, otherwise
// BitVec(w).  Constants never become terms in the interpreter's fast path
// (see Int in value.go) but the term layer folds them when they do meet.

type Op uint8

const (
	opConst Op = iota
	opTrue
	opFalse
	opVar
	opNot
	opAnd
	opOr
	opIte
	opEq
	opUlt
	opUle
	opSlt
	opSle
	opAdd
	opSub
	opMul
	opBAnd
	opBOr
	opBXor
	opShl
	opLshr
	opAshr
	opUdiv
	opUrem
	opSdiv
	opSrem
	opExtract
	opZext
	opSext
	opConcat
	opUF
)

var opName = [...]string{
	opNot: "not", opAnd: "and", opOr: "or", opIte: "ite", opEq: "=",
	opUlt: "bvult", opUle: "bvule", opSlt: "bvslt", opSle: "bvsle",
	opAdd: "bvadd", opSub: "bvsub", opMul: "bvmul", opBAnd: "bvand", opBOr: "bvor", opBXor: "bvxor",
	opShl: "bvshl", opLshr: "bvlshr", opAshr: "bvashr",
	opUdiv: "bvudiv", opUrem: "bvurem", opSdiv: "bvsdiv", opSrem: "bvsrem", opConcat: "concat",
}

type Term struct {
	op   Op
	w    int
	val  uint64
	name string // var name / UF name
	a, b int    // extract hi/lo; ext amount
	args []*Term
	id   int
}

type termKey struct {
	op      Op
	w       int
	val     uint64
	name    string
	a, b    int
	x, y, z int
}

type TermCtx struct {
	tab  map[termKey]*Term
	cnt  int
	tt   *Term
	ff   *Term
}

func NewTermCtx() *TermCtx {
	c := &TermCtx{tab: map[termKey]*Term{}}
	c.tt = c.intern(&Term{op: opTrue})
	c.ff = c.intern(&Term{op: opFalse})
	return c
}

func (c *TermCtx) intern(t *Term) *Term {
	k := termKey{op: t.op, w: t.w, val: t.val, name: t.name, a: t.a, b: t.b}
	switch len(t.args) {
	case 0:
	case 1:
		k.x = t.args[0].id
	case 2:
		k.x, k.y = t.args[0].id, t.args[1].id
	case 3:
		k.x, k.y, k.z = t.args[0].id, t.args[1].id, t.args[2].id
	default:
		var sb strings.Builder
		sb.WriteString(t.name)
		for _, a := range t.args {
			sb.WriteByte(',')
			sb.WriteString(strconv.Itoa(a.id))
		}
		k.name = sb.String()
	}
	if o, ok := c.tab[k]; ok {
		return o
	}
	c.cnt++
	t.id = c.cnt
	c.tab[k] = t
	return t
}

func mask(w int) uint64 {
	if w >= 64 {
		return ^uint64(0)
	}
	return (uint64(1) << uint(w)) - 1
}

func sext64(v uint64, w int) int64 {
	if w >= 64 {
		return int64(v)
	}
	sh := uint(64 - w)
	return int64(v<<sh) >> sh
}

func (c *TermCtx) BV(w int, v uint64) *Term { return c.intern(&Term{op: opConst, w: w, val: v & mask(w)}) }
func (c *TermCtx) Bool(b bool) *Term {
	if b {
		return c.tt
	}
	return c.ff
}
func (c *TermCtx) Var(name string, w int) *Term { return c.intern(&Term{op: opVar, name: name, w: w}) }

func (t *Term) isConst() bool { return t.op == opConst || t.op == opTrue || t.op == opFalse }
func (t *Term) isTrue() bool  { return t.op == opTrue }
func (t *Term) isFalse() bool { return t.op == opFalse }

// foldBin computes a binary bit-vector op on constants (Go semantics for
// shifts: count >= width gives 0 / sign fill).
func foldBin(op Op, w int, a, b uint64) (uint64, bool) {
	var r uint64
	switch op {
	case opAdd:
		r = a + b
	case opSub:
		r = a - b
	case opMul:
		r = a * b
	case opBAnd:
		r = a & b
	case opBOr:
		r = a | b
	case opBXor:
		r = a ^ b
	case opShl:
		if b >= uint64(w) {
			r = 0
		} else {
			r = a << b
		}
	case opLshr:
		if b >= uint64(w) {
			r = 0
		} else {
			r = (a & mask(w)) >> b
		}
	case opAshr:
		s := sext64(a, w)
		if b >= uint64(w) {
			b = uint64(w - 1)
		}
		r = uint64(s >> b)
	case opUdiv:
		if b&mask(w) == 0 {
			return 0, false
		}
		r = (a & mask(w)) / (b & mask(w))
	case opUrem:
		if b&mask(w) == 0 {
			return 0, false
		}
		r = (a & mask(w)) % (b & mask(w))
	case opSdiv:
		sb := sext64(b, w)
		if sb == 0 {
			return 0, false
		}
		sa := sext64(a, w)
		if sb == -1 {
			r = uint64(-sa)
		} else {
			r = uint64(sa / sb)
		}
	case opSrem:
		sb := sext64(b, w)
		if sb == 0 {
			return 0, false
		}
		sa := sext64(a, w)
		if sb == -1 {
			r = 0
		} else {
			r = uint64(sa % sb)
		}
	default:
		return 0, false
	}
	return r & mask(w), true
}

func (c *TermCtx) Bin(op Op, x, y *Term) *Term {
	w := x.w
	if x.w != y.w {
		panic(fmt.Sprintf("Bin %s width mismatch %d %d", opName[op], x.w, y.w))
	}
	if x.op == opConst && y.op == opConst {
		if r, ok := foldBin(op, w, x.val, y.val); ok {
			return c.BV(w, r)
		}
	}
	switch op {
	case opBAnd:
		if y.op == opConst && y.val == mask(w) {
			return x
		}
		if x.op == opConst && x.val == mask(w) {
			return y
		}
		if (y.op == opConst && y.val == 0) || (x.op == opConst && x.val == 0) {
			return c.BV(w, 0)
		}
	case opBOr, opAdd, opBXor:
		if y.op == opConst && y.val == 0 {
			return x
		}
		if x.op == opConst && x.val == 0 {
			return y
		}
	case opSub, opShl, opLshr, opAshr:
		if y.op == opConst && y.val == 0 {
			return x
		}
	case opMul:
		if y.op == opConst && y.val == 1 {
			return x
		}
		if x.op == opConst && x.val == 1 {
			return y
		}
	}
	if op == opSub && x == y {
		return c.BV(w, 0)
	}
	return c.intern(&Term{op: op, args: []*Term{x, y}, w: w})
}

func cmpConst(op Op, w int, a, b uint64) bool {
	switch op {
	case opEq:
		return a == b
	case opUlt:
		return a < b
	case opUle:
		return a <= b
	case opSlt:
		return sext64(a, w) < sext64(b, w)
	case opSle:
		return sext64(a, w) <= sext64(b, w)
	}
	panic("cmpConst")
}

// Cmp builds =, bvult, bvule, bvslt, bvsle (Bool result).
func (c *TermCtx) Cmp(op Op, x, y *Term) *Term {
	if x.w != y.w {
		panic(fmt.Sprintf("Cmp %s width mismatch %d %d", opName[op], x.w, y.w))
	}
	if x.w == 0 { // bool equality
		if op != opEq {
			panic("bool order compare")
		}
		if x == y {
			return c.tt
		}
		if x.isConst() {
			if x.isTrue() {
				return y
			}
			return c.Not(y)
		}
		if y.isConst() {
			if y.isTrue() {
				return x
			}
			return c.Not(x)
		}
		return c.intern(&Term{op: opEq, args: []*Term{x, y}})
	}
	if x.op == opConst && y.op == opConst {
		return c.Bool(cmpConst(op, x.w, x.val, y.val))
	}
	if x == y {
		return c.Bool(op == opEq || op == opUle || op == opSle)
	}
	if op == opEq && x.id > y.id {
		x, y = y, x
	}
	// unsigned range trivia
	if op == opUlt && y.op == opConst && y.val == 0 {
		return c.ff
	}
	if op == opUle && x.op == opConst && x.val == 0 {
		return c.tt
	}
	// zext(x) compared with a constant that does not fit
	if x.op == opZext && y.op == opConst && x.args[0].w < 64 {
		iw := x.args[0].w
		if y.val > mask(iw) {
			switch op {
			case opEq:
				return c.ff
			case opUlt, opUle:
				return c.tt
			}
		} else if op == opEq || op == opUlt || op == opUle {
			return c.Cmp(op, x.args[0], c.BV(iw, y.val))
		}
	}
	if y.op == opZext && x.op == opConst && y.args[0].w < 64 {
		iw := y.args[0].w
		if x.val > mask(iw) {
			switch op {
			case opEq, opUlt, opUle:
				return c.ff
			}
		} else if op == opEq || op == opUlt || op == opUle {
			return c.Cmp(op, c.BV(iw, x.val), y.args[0])
		}
	}
	return c.intern(&Term{op: op, args: []*Term{x, y}})
}

func (c *TermCtx) Not(x *Term) *Term {
	switch x.op {
	case opTrue:
		return c.ff
	case opFalse:
		return c.tt
	case opNot:
		return x.args[0]
	}
	return c.intern(&Term{op: opNot, args: []*Term{x}})
}

func (c *TermCtx) And(x, y *Term) *Term {
	if x.op == opFalse || y.op == opFalse {
		return c.ff
	}
	if x.op == opTrue {
		return y
	}
	if y.op == opTrue || x == y {
		return x
	}
	return c.intern(&Term{op: opAnd, args: []*Term{x, y}})
}

func (c *TermCtx) Or(x, y *Term) *Term {
	if x.op == opTrue || y.op == opTrue {
		return c.tt
	}
	if x.op == opFalse {
		return y
	}
	if y.op == opFalse || x == y {
		return x
	}
	return c.intern(&Term{op: opOr, args: []*Term{x, y}})
}

func (c *TermCtx) Ite(cond, x, y *Term) *Term {
	if cond.op == opTrue {
		return x
	}
	if cond.op == opFalse {
		return y
	}
	if x == y {
		return x
	}
	if x.w == 0 {
		if x.isTrue() && y.isFalse() {
			return cond
		}
		if x.isFalse() && y.isTrue() {
			return c.Not(cond)
		}
	}
	return c.intern(&Term{op: opIte, args: []*Term{cond, x, y}, w: x.w})
}

func (c *TermCtx) Extract(x *Term, hi, lo int) *Term {
	w := hi - lo + 1
	if w == x.w {
		return x
	}
	if x.op == opConst {
		return c.BV(w, x.val>>uint(lo))
	}
	switch x.op {
	case opZext:
		iw := x.args[0].w
		if hi < iw {
			return c.Extract(x.args[0], hi, lo)
		}
		if lo >= iw {
			return c.BV(w, 0)
		}
	case opConcat:
		lw := x.args[1].w
		if hi < lw {
			return c.Extract(x.args[1], hi, lo)
		}
		if lo >= lw {
			return c.Extract(x.args[0], hi-lw, lo-lw)
		}
	case opExtract:
		return c.Extract(x.args[0], hi+x.b, lo+x.b)
	}
	return c.intern(&Term{op: opExtract, args: []*Term{x}, w: w, a: hi, b: lo})
}

func (c *TermCtx) Concat(x, y *Term) *Term {
	if x.op == opConst && y.op == opConst && x.w+y.w <= 64 {
		return c.BV(x.w+y.w, x.val<<uint(y.w)|y.val)
	}
	if x.op == opConst && x.val == 0 && x.w+y.w <= 64 {
		return c.Resize(y, x.w+y.w, false)
	}
	// adjacent extracts of the same term fuse back
	if x.op == opExtract && y.op == opExtract && x.args[0] == y.args[0] && x.b == y.a+1 {
		return c.Extract(x.args[0], x.a, y.b)
	}
	return c.intern(&Term{op: opConcat, args: []*Term{x, y}, w: x.w + y.w})
}

// Resize converts x to width w (zero-/sign-extending or truncating).
func (c *TermCtx) Resize(x *Term, w int, signed bool) *Term {
	if x.w == w {
		return x
	}
	if x.op == opConst {
		if w > x.w && signed {
			return c.BV(w, uint64(sext64(x.val, x.w)))
		}
		return c.BV(w, x.val)
	}
	if w < x.w {
		return c.Extract(x, w-1, 0)
	}
	if signed {
		return c.intern(&Term{op: opSext, args: []*Term{x}, w: w, a: w - x.w})
	}
	if x.op == opZext {
		x = x.args[0]
	}
	return c.intern(&Term{op: opZext, args: []*Term{x}, w: w, a: w - x.w})
}

func (c *TermCtx) UF(name string, w int, args []*Term) *Term {
	return c.intern(&Term{op: opUF, name: name, args: args, w: w})
}

func sortOf(t *Term) string {
	if t.w == 0 {
		return "Bool"
	}
	return "(_ BitVec " + strconv.Itoa(t.w) + ")"
}

// String renders a term as plain SMT-LIB (no sharing); for diagnostics only.
func (t *Term) String() string {
	switch t.op {
	case opConst:
		return fmt.Sprintf("(_ bv%d %d)", t.val, t.w)
	case opTrue:
		return "true"
	case opFalse:
		return "false"
	case opVar:
		return t.name
	case opExtract:
		return fmt.Sprintf("((_ extract %d %d) %s)", t.a, t.b, t.args[0])
	case opZext:
		return fmt.Sprintf("((_ zero_extend %d) %s)", t.a, t.args[0])
	case opSext:
		return fmt.Sprintf("((_ sign_extend %d) %s)", t.a, t.args[0])
	}
	parts := make([]string, len(t.args))
	for i, a := range t.args {
		parts[i] = a.String()
	}
	n := t.name
	if t.op != opUF {
		n = opName[t.op]
	}
	return "(" + n + " " + strings.Join(parts, " ") + ")"
}
