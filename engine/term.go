package main

import (
	"fmt"
	"os"
	"strconv"
	"strings"
)

// Terms are hash-consed per worker (TermCtx); w==0 means Bool, otherwise
// BitVec(w).  Constants never become terms in the interpreter's fast path
// (see Int in value.go) but the term layer folds them when they do meet.

type Op uint8

const (
	opConst Op = iota
	opTrue
	opFalse
	opVar
	opNot
	opAnd
	opOr
	opIte
	opEq
	opUlt
	opUle
	opSlt
	opSle
	opAdd
	opSub
	opMul
	opBAnd
	opBOr
	opBXor
	opShl
	opLshr
	opAshr
	opUdiv
	opUrem
	opSdiv
	opSrem
	opExtract
	opZext
	opSext
	opConcat
	opUF
)

var opName = [...]string{
	opNot: "not", opAnd: "and", opOr: "or", opIte: "ite", opEq: "=",
	opUlt: "bvult", opUle: "bvule", opSlt: "bvslt", opSle: "bvsle",
	opAdd: "bvadd", opSub: "bvsub", opMul: "bvmul", opBAnd: "bvand", opBOr: "bvor", opBXor: "bvxor",
	opShl: "bvshl", opLshr: "bvlshr", opAshr: "bvashr",
	opUdiv: "bvudiv", opUrem: "bvurem", opSdiv: "bvsdiv", opSrem: "bvsrem", opConcat: "concat",
}

type Term struct {
	op   Op
	w    int
	val  uint64
	name string // var name / UF name
	a, b int    // extract hi/lo; ext amount
	args []*Term
	id   int
	kz   uint64 // bits known to be 0 (w <= 64)
	ko   uint64 // bits known to be 1
	vs     []*Term // variables occurring in the term (computed lazily)
	vsDone bool
}

// varsOf returns the distinct variables of t (memoised).
func varsOf(t *Term) []*Term {
	if t.vsDone {
		return t.vs
	}
	switch {
	case t.op == opVar:
		t.vs = []*Term{t}
	case len(t.args) == 1:
		t.vs = varsOf(t.args[0])
	case len(t.args) > 1:
		seen := map[*Term]bool{}
		var out []*Term
		for _, a := range t.args {
			for _, v := range varsOf(a) {
				if !seen[v] {
					seen[v] = true
					out = append(out, v)
				}
			}
		}
		t.vs = out
	}
	t.vsDone = true
	return t.vs
}

func (t *Term) umax() uint64 { return ^t.kz & mask(t.w) }
func (t *Term) umin() uint64 { return t.ko }

type termKey struct {
	op      Op
	w       int
	val     uint64
	name    string
	a, b    int
	x, y, z int
}

type TermCtx struct {
	tab  map[termKey]*Term
	cnt  int
	tt   *Term
	ff   *Term
	// simplifier self-check (VERIF_CHECK_SIMPLIFY): pairs (naive, simplified)
	// whose equivalence the solver must prove
	checkSimp bool
	pending   [][2]*Term
	seenPair  map[[2]int]bool
}

func (c *TermCtx) note(naive, simp *Term) {
	if naive == simp {
		return
	}
	k := [2]int{naive.id, simp.id}
	if c.seenPair[k] {
		return
	}
	c.seenPair[k] = true
	c.pending = append(c.pending, [2]*Term{naive, simp})
}

// Bin, Cmp and Extract simplify; with checkSimp on, every rewrite is recorded
// against the unsimplified term so the solver can validate the simplifier.
func (c *TermCtx) Bin(op Op, x, y *Term) *Term {
	r := c.bin0(op, x, y)
	if c.checkSimp {
		c.note(c.intern(&Term{op: op, args: []*Term{x, y}, w: x.w, name: "raw"}), r)
	}
	return r
}

func (c *TermCtx) Cmp(op Op, x, y *Term) *Term {
	r := c.cmp0(op, x, y)
	if c.checkSimp {
		c.note(c.intern(&Term{op: op, args: []*Term{x, y}, name: "raw"}), r)
	}
	return r
}

func (c *TermCtx) Extract(x *Term, hi, lo int) *Term {
	r := c.extract0(x, hi, lo)
	if c.checkSimp && hi-lo+1 != x.w {
		c.note(c.intern(&Term{op: opExtract, args: []*Term{x}, w: hi - lo + 1, a: hi, b: lo, name: "raw"}), r)
	}
	return r
}

func NewTermCtx() *TermCtx {
	c := &TermCtx{tab: map[termKey]*Term{}, seenPair: map[[2]int]bool{}, checkSimp: checkSimplify}
	c.tt = c.intern(&Term{op: opTrue})
	c.ff = c.intern(&Term{op: opFalse})
	return c
}

func (c *TermCtx) intern(t *Term) *Term {
	k := termKey{op: t.op, w: t.w, val: t.val, name: t.name, a: t.a, b: t.b}
	switch len(t.args) {
	case 0:
	case 1:
		k.x = t.args[0].id
	case 2:
		k.x, k.y = t.args[0].id, t.args[1].id
	case 3:
		k.x, k.y, k.z = t.args[0].id, t.args[1].id, t.args[2].id
	default:
		var sb strings.Builder
		sb.WriteString(t.name)
		for _, a := range t.args {
			sb.WriteByte(',')
			sb.WriteString(strconv.Itoa(a.id))
		}
		k.name = sb.String()
	}
	if o, ok := c.tab[k]; ok {
		return o
	}
	c.cnt++
	t.id = c.cnt
	setKnown(t)
	c.tab[k] = t
	return t
}

func bitLen(v uint64) int {
	n := 0
	for v != 0 {
		n++
		v >>= 1
	}
	return n
}

// setKnown computes the known-bits abstraction of a new term.
func setKnown(t *Term) {
	if t.w == 0 || t.w > 64 {
		return
	}
	m := mask(t.w)
	switch t.op {
	case opConst:
		t.ko, t.kz = t.val, ^t.val&m
	case opBAnd:
		a, b := t.args[0], t.args[1]
		t.ko, t.kz = a.ko&b.ko, (a.kz|b.kz)&m
	case opBOr:
		a, b := t.args[0], t.args[1]
		t.ko, t.kz = a.ko|b.ko, a.kz&b.kz
	case opBXor:
		a, b := t.args[0], t.args[1]
		t.ko, t.kz = (a.ko&b.kz)|(a.kz&b.ko), (a.kz&b.kz)|(a.ko&b.ko)
	case opShl:
		a, b := t.args[0], t.args[1]
		if b.op == opConst {
			if b.val >= uint64(t.w) {
				t.kz = m
			} else {
				k := uint(b.val)
				t.ko, t.kz = (a.ko<<k)&m, ((a.kz<<k)|mask(int(k)))&m
			}
		}
	case opLshr:
		a, b := t.args[0], t.args[1]
		if b.op == opConst {
			if b.val >= uint64(t.w) {
				t.kz = m
			} else {
				k := uint(b.val)
				t.ko, t.kz = a.ko>>k, ((a.kz>>k)|^(m>>k))&m
			}
		} else {
			// shifting right never sets bits above the operand's highest possible bit
			t.kz = ^mask(bitLen(a.umax())) & m
		}
	case opZext:
		a := t.args[0]
		t.ko, t.kz = a.ko, (a.kz|^mask(a.w))&m
	case opExtract:
		a := t.args[0]
		if a.w <= 64 {
			t.ko, t.kz = (a.ko>>uint(t.b))&m, (a.kz>>uint(t.b))&m
		}
	case opConcat:
		a, b := t.args[0], t.args[1]
		t.ko, t.kz = (a.ko<<uint(b.w))|b.ko, ((a.kz<<uint(b.w))|b.kz)&m
	case opIte:
		a, b := t.args[1], t.args[2]
		t.ko, t.kz = a.ko&b.ko, a.kz&b.kz
	case opAdd:
		a, b := t.args[0], t.args[1]
		ma, mb := a.umax(), b.umax()
		if sum := ma + mb; sum >= ma && (t.w == 64 || sum <= m) { // no wrap-around possible
			t.kz = ^mask(bitLen(sum)) & m
		}
		// low bits: trailing known zeros of both operands stay zero
		tz := 0
		for tz < t.w && (a.kz>>uint(tz))&1 == 1 && (b.kz>>uint(tz))&1 == 1 {
			tz++
		}
		t.kz |= mask(tz)
	case opUdiv:
		t.kz = ^mask(bitLen(t.args[0].umax())) & m
	case opUrem:
		b := t.args[1]
		if b.umin() > 0 {
			t.kz = ^mask(bitLen(b.umax())) & m
		}
	}
}

// addNoWrap reports whether x+y cannot wrap around in w bits.
func addNoWrap(x, y *Term) bool {
	if x.w > 64 {
		return false
	}
	mx, my := x.umax(), y.umax()
	sum := mx + my
	return sum >= mx && sum <= mask(x.w)
}

var checkSimplify = os.Getenv("VERIF_CHECK_SIMPLIFY") != ""

func mask(w int) uint64 {
	if w >= 64 {
		return ^uint64(0)
	}
	return (uint64(1) << uint(w)) - 1
}

func sext64(v uint64, w int) int64 {
	if w >= 64 {
		return int64(v)
	}
	sh := uint(64 - w)
	return int64(v<<sh) >> sh
}

func (c *TermCtx) BV(w int, v uint64) *Term { return c.intern(&Term{op: opConst, w: w, val: v & mask(w)}) }
func (c *TermCtx) Bool(b bool) *Term {
	if b {
		return c.tt
	}
	return c.ff
}
func (c *TermCtx) Var(name string, w int) *Term { return c.intern(&Term{op: opVar, name: name, w: w}) }

func (t *Term) isConst() bool { return t.op == opConst || t.op == opTrue || t.op == opFalse }
func (t *Term) isTrue() bool  { return t.op == opTrue }
func (t *Term) isFalse() bool { return t.op == opFalse }

// foldBin computes a binary bit-vector op on constants (Go semantics for
// shifts: count >= width gives 0 / sign fill).
func foldBin(op Op, w int, a, b uint64) (uint64, bool) {
	var r uint64
	switch op {
	case opAdd:
		r = a + b
	case opSub:
		r = a - b
	case opMul:
		r = a * b
	case opBAnd:
		r = a & b
	case opBOr:
		r = a | b
	case opBXor:
		r = a ^ b
	case opShl:
		if b >= uint64(w) {
			r = 0
		} else {
			r = a << b
		}
	case opLshr:
		if b >= uint64(w) {
			r = 0
		} else {
			r = (a & mask(w)) >> b
		}
	case opAshr:
		s := sext64(a, w)
		if b >= uint64(w) {
			b = uint64(w - 1)
		}
		r = uint64(s >> b)
	case opUdiv:
		if b&mask(w) == 0 {
			return 0, false
		}
		r = (a & mask(w)) / (b & mask(w))
	case opUrem:
		if b&mask(w) == 0 {
			return 0, false
		}
		r = (a & mask(w)) % (b & mask(w))
	case opSdiv:
		sb := sext64(b, w)
		if sb == 0 {
			return 0, false
		}
		sa := sext64(a, w)
		if sb == -1 {
			r = uint64(-sa)
		} else {
			r = uint64(sa / sb)
		}
	case opSrem:
		sb := sext64(b, w)
		if sb == 0 {
			return 0, false
		}
		sa := sext64(a, w)
		if sb == -1 {
			r = 0
		} else {
			r = uint64(sa % sb)
		}
	default:
		return 0, false
	}
	return r & mask(w), true
}

func (c *TermCtx) bin0(op Op, x, y *Term) *Term {
	w := x.w
	if x.w != y.w {
		panic(fmt.Sprintf("Bin %s width mismatch %d %d", opName[op], x.w, y.w))
	}
	if x.op == opConst && y.op == opConst {
		if r, ok := foldBin(op, w, x.val, y.val); ok {
			return c.BV(w, r)
		}
	}
	switch op {
	case opBAnd:
		if y.op == opConst && y.val == mask(w) {
			return x
		}
		if x.op == opConst && x.val == mask(w) {
			return y
		}
		if (y.op == opConst && y.val == 0) || (x.op == opConst && x.val == 0) {
			return c.BV(w, 0)
		}
	case opBOr, opAdd, opBXor:
		if y.op == opConst && y.val == 0 {
			return x
		}
		if x.op == opConst && x.val == 0 {
			return y
		}
	case opSub, opShl, opLshr, opAshr:
		if y.op == opConst && y.val == 0 {
			return x
		}
	case opMul:
		if y.op == opConst && y.val == 1 {
			return x
		}
		if x.op == opConst && x.val == 1 {
			return y
		}
	}
	if op == opSub {
		if x == y {
			return c.BV(w, 0)
		}
		// (a+b)-a = b, (a+b)-b = a  (modular arithmetic: always valid)
		if x.op == opAdd {
			if x.args[0] == y {
				return x.args[1]
			}
			if x.args[1] == y {
				return x.args[0]
			}
		}
	}
	if w <= 64 {
		switch op {
		case opBAnd:
			// and with a constant that covers every possibly-set bit is the identity
			if y.op == opConst && x.umax()&^y.val == 0 {
				return x
			}
			if x.op == opConst && y.umax()&^x.val == 0 {
				return y
			}
		case opBOr:
			if y.op == opConst && y.val&^x.ko == 0 {
				return x
			}
			if x.op == opConst && x.val&^y.ko == 0 {
				return y
			}
		}
	}
	t := c.intern(&Term{op: op, args: []*Term{x, y}, w: w})
	if w <= 64 && t.op != opConst && t.ko|t.kz == mask(w) {
		return c.BV(w, t.ko) // every bit is known
	}
	return t
}

func cmpConst(op Op, w int, a, b uint64) bool {
	switch op {
	case opEq:
		return a == b
	case opUlt:
		return a < b
	case opUle:
		return a <= b
	case opSlt:
		return sext64(a, w) < sext64(b, w)
	case opSle:
		return sext64(a, w) <= sext64(b, w)
	}
	panic("cmpConst")
}

// Cmp builds =, bvult, bvule, bvslt, bvsle (Bool result).
func (c *TermCtx) cmp0(op Op, x, y *Term) *Term {
	if x.w != y.w {
		panic(fmt.Sprintf("Cmp %s width mismatch %d %d", opName[op], x.w, y.w))
	}
	if x.w == 0 { // bool equality
		if op != opEq {
			panic("bool order compare")
		}
		if x == y {
			return c.tt
		}
		if x.isConst() {
			if x.isTrue() {
				return y
			}
			return c.Not(y)
		}
		if y.isConst() {
			if y.isTrue() {
				return x
			}
			return c.Not(x)
		}
		return c.intern(&Term{op: opEq, args: []*Term{x, y}})
	}
	if x.op == opConst && y.op == opConst {
		return c.Bool(cmpConst(op, x.w, x.val, y.val))
	}
	if x == y {
		return c.Bool(op == opEq || op == opUle || op == opSle)
	}
	// a <= b is represented as not (b < a) so that both polarities of one
	// comparison share a literal
	if op == opUle {
		return c.Not(c.Cmp(opUlt, y, x))
	}
	if op == opSle {
		return c.Not(c.Cmp(opSlt, y, x))
	}
	if op == opEq && x.id > y.id {
		x, y = y, x
	}
	if x.w <= 64 {
		switch op {
		case opEq:
			if x.ko&y.kz != 0 || x.kz&y.ko != 0 {
				return c.ff // some bit is known to differ
			}
		case opSlt:
			sb := uint64(1) << uint(x.w-1)
			if x.kz&sb != 0 && y.kz&sb != 0 {
				return c.Cmp(opUlt, x, y) // both non-negative
			}
		case opUlt:
			if x.umax() < y.umin() {
				return c.tt
			}
			if x.umin() >= y.umax() {
				return c.ff
			}
			// (a+b) < a is "the addition wrapped"
			if x.op == opAdd && (x.args[0] == y || x.args[1] == y) && addNoWrap(x.args[0], x.args[1]) {
				return c.ff
			}
			// a+b < a+d  <=>  b < d when neither addition can wrap
			if x.op == opAdd && y.op == opAdd && addNoWrap(x.args[0], x.args[1]) && addNoWrap(y.args[0], y.args[1]) {
				for i := 0; i < 2; i++ {
					for j := 0; j < 2; j++ {
						if x.args[i] == y.args[j] {
							return c.Cmp(opUlt, x.args[1-i], y.args[1-j])
						}
					}
				}
			}
			// a < a+d with no wrap  <=>  d != 0
			if y.op == opAdd && (y.args[0] == x || y.args[1] == x) && addNoWrap(y.args[0], y.args[1]) {
				o := y.args[0]
				if o == x {
					o = y.args[1]
				}
				return c.Not(c.Cmp(opEq, o, c.BV(o.w, 0)))
			}
		}
	}
	// zext(x) compared with a constant that does not fit
	if x.op == opZext && y.op == opConst && x.args[0].w < 64 {
		iw := x.args[0].w
		if y.val > mask(iw) {
			switch op {
			case opEq:
				return c.ff
			case opUlt, opUle:
				return c.tt
			}
		} else if op == opEq || op == opUlt || op == opUle {
			return c.Cmp(op, x.args[0], c.BV(iw, y.val))
		}
	}
	if y.op == opZext && x.op == opConst && y.args[0].w < 64 {
		iw := y.args[0].w
		if x.val > mask(iw) {
			switch op {
			case opEq, opUlt, opUle:
				return c.ff
			}
		} else if op == opEq || op == opUlt || op == opUle {
			return c.Cmp(op, c.BV(iw, x.val), y.args[0])
		}
	}
	return c.intern(&Term{op: op, args: []*Term{x, y}})
}

func (c *TermCtx) Not(x *Term) *Term {
	switch x.op {
	case opTrue:
		return c.ff
	case opFalse:
		return c.tt
	case opNot:
		return x.args[0]
	}
	return c.intern(&Term{op: opNot, args: []*Term{x}})
}

func (c *TermCtx) And(x, y *Term) *Term {
	if x.op == opFalse || y.op == opFalse {
		return c.ff
	}
	if x.op == opTrue {
		return y
	}
	if y.op == opTrue || x == y {
		return x
	}
	return c.intern(&Term{op: opAnd, args: []*Term{x, y}})
}

func (c *TermCtx) Or(x, y *Term) *Term {
	if x.op == opTrue || y.op == opTrue {
		return c.tt
	}
	if x.op == opFalse {
		return y
	}
	if y.op == opFalse || x == y {
		return x
	}
	return c.intern(&Term{op: opOr, args: []*Term{x, y}})
}

func (c *TermCtx) Ite(cond, x, y *Term) *Term {
	if cond.op == opTrue {
		return x
	}
	if cond.op == opFalse {
		return y
	}
	if x == y {
		return x
	}
	if x.w == 0 {
		if x.isTrue() && y.isFalse() {
			return cond
		}
		if x.isFalse() && y.isTrue() {
			return c.Not(cond)
		}
	}
	return c.intern(&Term{op: opIte, args: []*Term{cond, x, y}, w: x.w})
}

func (c *TermCtx) extract0(x *Term, hi, lo int) *Term {
	w := hi - lo + 1
	if w == x.w {
		return x
	}
	if x.op == opConst {
		return c.BV(w, x.val>>uint(lo))
	}
	switch x.op {
	case opZext:
		iw := x.args[0].w
		if hi < iw {
			return c.Extract(x.args[0], hi, lo)
		}
		if lo >= iw {
			return c.BV(w, 0)
		}
	case opConcat:
		lw := x.args[1].w
		if hi < lw {
			return c.Extract(x.args[1], hi, lo)
		}
		if lo >= lw {
			return c.Extract(x.args[0], hi-lw, lo-lw)
		}
	case opExtract:
		return c.Extract(x.args[0], hi+x.b, lo+x.b)
	case opBAnd, opBOr, opBXor:
		if x.args[0].op == opConst || x.args[1].op == opConst {
			return c.Bin(x.op, c.Extract(x.args[0], hi, lo), c.Extract(x.args[1], hi, lo))
		}
	}
	t := c.intern(&Term{op: opExtract, args: []*Term{x}, w: w, a: hi, b: lo})
	if w <= 64 && t.ko|t.kz == mask(w) {
		return c.BV(w, t.ko)
	}
	return t
}

func (c *TermCtx) Concat(x, y *Term) *Term {
	if x.op == opConst && y.op == opConst && x.w+y.w <= 64 {
		return c.BV(x.w+y.w, x.val<<uint(y.w)|y.val)
	}
	if x.op == opConst && x.val == 0 && x.w+y.w <= 64 {
		return c.Resize(y, x.w+y.w, false)
	}
	// adjacent extracts of the same term fuse back
	if x.op == opExtract && y.op == opExtract && x.args[0] == y.args[0] && x.b == y.a+1 {
		return c.Extract(x.args[0], x.a, y.b)
	}
	return c.intern(&Term{op: opConcat, args: []*Term{x, y}, w: x.w + y.w})
}

// Resize converts x to width w (zero-/sign-extending or truncating).
func (c *TermCtx) Resize(x *Term, w int, signed bool) *Term {
	if x.w == w {
		return x
	}
	if x.op == opConst {
		if w > x.w && signed {
			return c.BV(w, uint64(sext64(x.val, x.w)))
		}
		return c.BV(w, x.val)
	}
	if w < x.w {
		return c.Extract(x, w-1, 0)
	}
	if signed {
		return c.intern(&Term{op: opSext, args: []*Term{x}, w: w, a: w - x.w})
	}
	if x.op == opZext {
		x = x.args[0]
	}
	return c.intern(&Term{op: opZext, args: []*Term{x}, w: w, a: w - x.w})
}

func (c *TermCtx) UF(name string, w int, args []*Term) *Term {
	return c.intern(&Term{op: opUF, name: name, args: args, w: w})
}

func sortOf(t *Term) string {
	if t.w == 0 {
		return "Bool"
	}
	return "(_ BitVec " + strconv.Itoa(t.w) + ")"
}

// String renders a term as plain SMT-LIB (no sharing); for diagnostics only.
func (t *Term) String() string {
	switch t.op {
	case opConst:
		return fmt.Sprintf("(_ bv%d %d)", t.val, t.w)
	case opTrue:
		return "true"
	case opFalse:
		return "false"
	case opVar:
		return t.name
	case opExtract:
		return fmt.Sprintf("((_ extract %d %d) %s)", t.a, t.b, t.args[0])
	case opZext:
		return fmt.Sprintf("((_ zero_extend %d) %s)", t.a, t.args[0])
	case opSext:
		return fmt.Sprintf("((_ sign_extend %d) %s)", t.a, t.args[0])
	}
	parts := make([]string, len(t.args))
	for i, a := range t.args {
		parts[i] = a.String()
	}
	n := t.name
	if t.op != opUF {
		n = opName[t.op]
	}
	return "(" + n + " " + strings.Join(parts, " ") + ")"
}
