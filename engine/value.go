package main

import (
	"fmt"
	"go/types"

	"golang.org/x/tools/go/ssa"
)

// ---------- values ----------
//
// Control flow and heap shape are concrete; scalars are either concrete
// (t == nil) or SMT terms.  Lengths of strings and slices are concrete.

type Val interface{}

// Int is an integer (w = 8/16/32/64) or bool (w = 0) value.
type Int struct {
	t  *Term  // nil: concrete value c
	c  uint64 // concrete value (masked to w; bool: 0/1)
	w  uint8
	sg bool
}

func (i Int) sym() bool { return i.t != nil }

func cInt(v uint64, w int, sg bool) Int { return Int{c: v & mask(w), w: uint8(w), sg: sg} }
func cBool(b bool) Int {
	if b {
		return Int{c: 1}
	}
	return Int{}
}
func goInt(v int) Int { return Int{c: uint64(v), w: 64, sg: true} }

// Array is a heap object holding elements.  Byte arrays keep concrete bytes
// natively and symbolic overrides in st (nil entry = concrete).
type Array struct {
	isByte bool
	b      []byte
	st     []*Term
	cells  []Val
}

func newByteArray(n int) *Array { return &Array{isByte: true, b: make([]byte, n)} }

func (a *Array) size() int {
	if a.isByte {
		return len(a.b)
	}
	return len(a.cells)
}

func (a *Array) get(i int) Val {
	if a.isByte {
		if i < len(a.st) && a.st[i] != nil {
			return Int{t: a.st[i], w: 8}
		}
		return Int{c: uint64(a.b[i]), w: 8}
	}
	return a.cells[i]
}

// growSt makes st cover indices < n (st is only as long as the highest
// symbolic index requires; beyond it bytes are concrete).
func (a *Array) growSt(n int) {
	if n <= len(a.st) {
		return
	}
	if n <= cap(a.st) {
		a.st = a.st[:n]
		return
	}
	c := 2 * cap(a.st)
	if c < n {
		c = n
	}
	if c < 32 {
		c = 32
	}
	if c > len(a.b) {
		c = len(a.b)
	}
	ns := make([]*Term, n, c)
	copy(ns, a.st)
	a.st = ns
}

func (a *Array) set(i int, v Val) {
	if a.isByte {
		x := v.(Int)
		if x.t != nil {
			a.growSt(i + 1)
			a.st[i] = x.t
			return
		}
		a.b[i] = byte(x.c)
		if i < len(a.st) {
			a.st[i] = nil
		}
		return
	}
	a.cells[i] = v
}

// hasSym reports whether any byte in [off,off+n) is symbolic.
func (a *Array) hasSym(off, n int) bool {
	end := off + n
	if end > len(a.st) {
		end = len(a.st)
	}
	for i := off; i < end; i++ {
		if a.st[i] != nil {
			return true
		}
	}
	return false
}

// copyRange copies n elements (memmove semantics).
func copyRange(dst *Array, doff int, src *Array, soff int, n int) {
	if n <= 0 {
		return
	}
	if dst.isByte {
		copy(dst.b[doff:doff+n], src.b[soff:soff+n])
		// symbolic part of the source range: src.st[soff:min(soff+n,len(src.st))]
		sEnd := soff + n
		if sEnd > len(src.st) {
			sEnd = len(src.st)
		}
		last := -1 // last symbolic position in the source range
		for i := sEnd - 1; i >= soff; i-- {
			if src.st[i] != nil {
				last = i
				break
			}
		}
		if last < 0 {
			// nothing symbolic: clear the destination's overrides in range
			dEnd := doff + n
			if dEnd > len(dst.st) {
				dEnd = len(dst.st)
			}
			for i := doff; i < dEnd; i++ {
				dst.st[i] = nil
			}
			return
		}
		k := last - soff + 1 // number of leading positions that may be symbolic
		if dst == src {
			tmp := append([]*Term{}, src.st[soff:soff+k]...)
			dst.growSt(doff + k)
			copy(dst.st[doff:doff+k], tmp)
		} else {
			dst.growSt(doff + k)
			copy(dst.st[doff:doff+k], src.st[soff:soff+k])
		}
		dEnd := doff + n
		if dEnd > len(dst.st) {
			dEnd = len(dst.st)
		}
		for i := doff + k; i < dEnd; i++ {
			dst.st[i] = nil
		}
		return
	}
	if dst == src && doff > soff {
		for i := n - 1; i >= 0; i-- {
			dst.cells[doff+i] = copyVal(src.cells[soff+i])
		}
		return
	}
	for i := 0; i < n; i++ {
		dst.cells[doff+i] = copyVal(src.cells[soff+i])
	}
}

type Slice struct {
	arr           *Array
	off, len, cap int
	isNil         bool
}

// Str is an immutable byte string backed by a byte Array.
type Str struct {
	arr    *Array
	off, n int
}

func (s Str) hasSym() bool { return s.n > 0 && s.arr.hasSym(s.off, s.n) }
func (s Str) at(i int) Int {
	return s.arr.get(s.off + i).(Int)
}

// goStr returns the concrete content (caller must know it is concrete).
func (s Str) goStr() string {
	if s.n == 0 {
		return ""
	}
	return string(s.arr.b[s.off : s.off+s.n])
}

func mkStr(s string) Str {
	if len(s) == 0 {
		return Str{}
	}
	return Str{arr: &Array{isByte: true, b: []byte(s)}, n: len(s)}
}

func mkByteSlice(b []byte) Slice {
	a := &Array{isByte: true, b: append([]byte{}, b...)}
	return Slice{arr: a, len: len(b), cap: len(b)}
}

// Ptr points either at a Val cell (loc) or at element idx of an Array.
type Ptr struct {
	loc *Val
	arr *Array
	idx int
}

func (p Ptr) load() Val {
	if p.loc != nil {
		return *p.loc
	}
	return p.arr.get(p.idx)
}

type Closure struct {
	fn   *ssa.Function
	bind []Val
}

type Tuple []Val

type Iface struct {
	typ types.Type
	v   Val
}

type StructV struct{ f []Val }

type MapV struct {
	keys []Val
	vals []Val
}

type mapIter struct {
	mp  *MapV
	pos int
	str *Str
}

// assignInto stores v at loc with value semantics, keeping the addresses of
// struct fields and array cells stable.
func assignInto(loc *Val, v Val) {
	switch cur := (*loc).(type) {
	case StructV:
		if nv, ok := v.(StructV); ok && len(nv.f) == len(cur.f) {
			for k := range cur.f {
				assignInto(&cur.f[k], nv.f[k])
			}
			return
		}
	case *Array:
		if nv, ok := v.(*Array); ok && nv != cur && nv.size() == cur.size() {
			copyRange(cur, 0, nv, 0, cur.size())
			return
		}
	}
	*loc = copyVal(v)
}

func copyVal(v Val) Val {
	switch x := v.(type) {
	case *Array:
		n := &Array{isByte: x.isByte}
		if x.isByte {
			n.b = append([]byte{}, x.b...)
			if len(x.st) > 0 {
				n.st = append([]*Term{}, x.st...)
			}
		} else {
			n.cells = make([]Val, len(x.cells))
			for i, c := range x.cells {
				n.cells[i] = copyVal(c)
			}
		}
		return n
	case StructV:
		n := StructV{f: make([]Val, len(x.f))}
		for i, c := range x.f {
			n.f[i] = copyVal(c)
		}
		return n
	}
	return v
}

func widthOf(t types.Type) (int, bool) {
	b, ok := t.Underlying().(*types.Basic)
	if !ok {
		return -1, false
	}
	switch b.Kind() {
	case types.Bool, types.UntypedBool:
		return 0, false
	case types.Int8:
		return 8, true
	case types.Uint8:
		return 8, false
	case types.Int16:
		return 16, true
	case types.Uint16:
		return 16, false
	case types.Int32, types.UntypedRune:
		return 32, true
	case types.Uint32:
		return 32, false
	case types.Int, types.Int64, types.UntypedInt:
		return 64, true
	case types.Uint, types.Uint64, types.Uintptr:
		return 64, false
	}
	return -1, false
}

func isByteType(t types.Type) bool {
	b, ok := t.Underlying().(*types.Basic)
	return ok && b.Kind() == types.Uint8
}

func isStringType(t types.Type) bool {
	b, ok := t.Underlying().(*types.Basic)
	return ok && b.Info()&types.IsString != 0
}

func zeroVal(t types.Type) Val {
	switch u := t.Underlying().(type) {
	case *types.Basic:
		if u.Info()&types.IsString != 0 {
			return Str{}
		}
		w, s := widthOf(t)
		if w >= 0 {
			return Int{w: uint8(w), sg: s}
		}
		if u.Info()&types.IsFloat != 0 {
			return float64(0)
		}
	case *types.Array:
		n := int(u.Len())
		if isByteType(u.Elem()) {
			return newByteArray(n)
		}
		a := &Array{cells: make([]Val, n)}
		for i := range a.cells {
			a.cells[i] = zeroVal(u.Elem())
		}
		return a
	case *types.Slice:
		return Slice{isNil: true}
	case *types.Struct:
		s := StructV{f: make([]Val, u.NumFields())}
		for i := range s.f {
			s.f[i] = zeroVal(u.Field(i).Type())
		}
		return s
	}
	return nil // pointers, interfaces, funcs, maps, chans, unsafe pointers
}

func newArrayFor(elem types.Type, n int) *Array {
	if isByteType(elem) {
		return newByteArray(n)
	}
	a := &Array{cells: make([]Val, n)}
	for i := range a.cells {
		a.cells[i] = zeroVal(elem)
	}
	return a
}

func describe(v Val) string {
	switch x := v.(type) {
	case nil:
		return "nil"
	case Int:
		if x.t != nil {
			return "<sym>"
		}
		if x.sg {
			return fmt.Sprint(sext64(x.c, int(x.w)))
		}
		return fmt.Sprint(x.c)
	case Str:
		if x.hasSym() {
			return fmt.Sprintf("<sym string len %d>", x.n)
		}
		return fmt.Sprintf("%q", x.goStr())
	}
	return fmt.Sprintf("<%T>", v)
}
