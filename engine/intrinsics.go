package main

import (
	"fmt"
	"go/token"
	"go/types"
	"hash/crc32"
	"path/filepath"
	"strings"

	"golang.org/x/tools/go/ssa"
)

// ---------- native objects ----------

type nativeErr struct {
	kind string // "fmt" for fmt.Errorf values; "exist", "notexist", "closed", "eof", "zlib" for the models
	msg  string
}

type crcState struct {
	arr *Array
	n   int
}

type randObj struct{}

var (
	nativeErrType  = types.NewPointer(types.NewNamed(types.NewTypeName(token.NoPos, nil, "nativeError", nil), types.NewStruct(nil, nil), nil))
	nativeCRCType  = types.NewPointer(types.NewNamed(types.NewTypeName(token.NoPos, nil, "nativeCRC", nil), types.NewStruct(nil, nil), nil))
	nativeFileType = types.NewPointer(types.NewNamed(types.NewTypeName(token.NoPos, nil, "nativeFile", nil), types.NewStruct(nil, nil), nil))
	nativeInfoType = types.NewPointer(types.NewNamed(types.NewTypeName(token.NoPos, nil, "nativeFileInfo", nil), types.NewStruct(nil, nil), nil))
	nativeZRType   = types.NewPointer(types.NewNamed(types.NewTypeName(token.NoPos, nil, "nativeZlibReader", nil), types.NewStruct(nil, nil), nil))
	nativeZWType   = types.NewPointer(types.NewNamed(types.NewTypeName(token.NoPos, nil, "nativeZlibWriter", nil), types.NewStruct(nil, nil), nil))
)

func mkErr(kind, msg string) Val { return Iface{nativeErrType, &nativeErr{kind, msg}} }

var nativeMethods = map[string][]string{
	"zr":   {"Read", "Close", "Reset"},
	"zw":   {"Write", "Close"},
	"crc":  {"Write", "Sum32", "Sum", "Reset", "Size", "BlockSize"},
	"file": {"Write", "Close", "ReadAt", "Name", "Stat", "Read", "Seek", "Sync"},
	"info": {"Name", "Size", "IsDir", "Mode", "ModTime", "Sys"},
	"err":  {"Error"},
}

func nativeKind(v Val) string {
	switch v.(type) {
	case *zrObj:
		return "zr"
	case *zwObj:
		return "zw"
	case *crcState:
		return "crc"
	case *fileObj:
		return "file"
	case *fileInfo:
		return "info"
	case *nativeErr:
		return "err"
	}
	return ""
}

func (m *Machine) implements(ifc Iface, it *types.Interface) bool {
	if k := nativeKind(ifc.v); k != "" {
		for i := 0; i < it.NumMethods(); i++ {
			found := false
			for _, n := range nativeMethods[k] {
				if n == it.Method(i).Name() {
					found = true
				}
			}
			if !found {
				return false
			}
		}
		return true
	}
	return types.Implements(ifc.typ, it)
}

// ---------- helpers ----------

func (m *Machine) goString(v Val, what string) string {
	s, ok := v.(Str)
	if !ok {
		unsupported("%s: expected string, got %T", what, v)
	}
	if s.hasSym() {
		panic(pathAbort{"cut: symbolic string passed to " + what})
	}
	return s.goStr()
}

func (m *Machine) byteCells(v Val) (arr *Array, off, n int) {
	switch s := v.(type) {
	case Slice:
		return s.arr, s.off, s.len
	case Str:
		return s.arr, s.off, s.n
	}
	unsupported("byteCells of %T", v)
	return
}

func (m *Machine) concreteBytes(v Val) ([]byte, bool) {
	arr, off, n := m.byteCells(v)
	if n == 0 {
		return nil, true
	}
	if arr.hasSym(off, n) {
		return nil, false
	}
	return arr.b[off : off+n], true
}

// nativeOf converts an interpreter value to a Go value for formatting only.
func (m *Machine) nativeOf(v Val) interface{} {
	switch x := v.(type) {
	case Int:
		if x.t != nil {
			return "<sym>"
		}
		if x.w == 0 {
			return x.c != 0
		}
		switch {
		case x.w == 64 && x.sg:
			return int64(x.c)
		case x.w == 64:
			return x.c
		case x.w == 32 && !x.sg:
			return uint32(x.c)
		case x.w == 32:
			return int32(x.c)
		case x.w == 16 && !x.sg:
			return uint16(x.c)
		case x.w == 16:
			return int16(x.c)
		case x.w == 8 && x.sg:
			return int8(x.c)
		case x.w == 8:
			return byte(x.c)
		}
		return x.c
	case Str:
		if x.hasSym() {
			return "<sym>"
		}
		return x.goStr()
	case Slice:
		if x.isNil || x.len == 0 {
			return []string(nil)
		}
		if x.arr.isByte {
			if x.arr.hasSym(x.off, x.len) {
				return "<sym bytes>"
			}
			return append([]byte{}, x.arr.b[x.off:x.off+x.len]...)
		}
		if _, ok := x.arr.cells[x.off].(Str); ok {
			out := make([]string, x.len)
			for i := range out {
				out[i] = fmt.Sprint(m.nativeOf(x.arr.cells[x.off+i]))
			}
			return out
		}
		out := make([]interface{}, x.len)
		for i := range out {
			out[i] = m.nativeOf(x.arr.cells[x.off+i])
		}
		return out
	case *Array:
		if x.isByte {
			if x.hasSym(0, len(x.b)) {
				return "<sym bytes>"
			}
			return append([]byte{}, x.b...)
		}
		return "<array>"
	case Iface:
		if e, ok := x.v.(*nativeErr); ok {
			return e.msg
		}
		return m.nativeOf(x.v)
	case nil:
		return nil
	case float64:
		return x
	}
	return fmt.Sprintf("<%T>", v)
}

func (m *Machine) fmtArgs(v Val) []interface{} {
	sl, _ := v.(Slice)
	var a []interface{}
	for i := 0; i < sl.len; i++ {
		a = append(a, m.nativeOf(sl.arr.cells[sl.off+i]))
	}
	return a
}

func safeSprintf(f string, a []interface{}) (s string) {
	defer func() {
		if recover() != nil {
			s = "<unformattable>"
		}
	}()
	return fmt.Sprintf(f, a...)
}

// ---------- crc ----------

func (m *Machine) crcOf(arr *Array, off, n int) Val {
	if n == 0 || !arr.hasSym(off, n) {
		var b []byte
		if n > 0 {
			b = arr.b[off : off+n]
		}
		return cInt(uint64(crc32.ChecksumIEEE(b)), 32, false)
	}
	args := make([]*Term, n)
	for j := 0; j < n; j++ {
		args[j] = m.term(arr.get(off + j).(Int))
	}
	return Int{t: m.ctx.UF(fmt.Sprintf("crc32ieee_%d", n), 32, args), w: 32}
}

// ---------- encoding/binary ----------

func (m *Machine) flatten(v Val, t types.Type, out *Array, pos *int) {
	switch u := t.Underlying().(type) {
	case *types.Struct:
		sv := v.(StructV)
		for i := 0; i < u.NumFields(); i++ {
			m.flatten(sv.f[i], u.Field(i).Type(), out, pos)
		}
	case *types.Array:
		a := v.(*Array)
		for i := 0; i < a.size(); i++ {
			m.flatten(a.get(i), u.Elem(), out, pos)
		}
	case *types.Basic:
		x := v.(Int)
		nb := int(x.w) / 8
		for k := nb - 1; k >= 0; k-- {
			if x.t == nil {
				out.set(*pos, cInt(x.c>>(8*uint(k)), 8, false))
			} else {
				out.set(*pos, m.mk(m.ctx.Extract(x.t, 8*k+7, 8*k), false))
			}
			*pos++
		}
	default:
		unsupported("binary.Write of %s", t)
	}
}

func (m *Machine) unflatten(t types.Type, in *Array, pos *int) Val {
	switch u := t.Underlying().(type) {
	case *types.Struct:
		sv := StructV{f: make([]Val, u.NumFields())}
		for i := range sv.f {
			sv.f[i] = m.unflatten(u.Field(i).Type(), in, pos)
		}
		return sv
	case *types.Array:
		a := newArrayFor(u.Elem(), int(u.Len()))
		for i := 0; i < a.size(); i++ {
			a.set(i, m.unflatten(u.Elem(), in, pos))
		}
		return a
	case *types.Basic:
		w, sg := widthOf(t)
		nb := w / 8
		sym := in.hasSym(*pos, nb)
		if !sym {
			var v uint64
			for k := 0; k < nb; k++ {
				v = v<<8 | uint64(in.b[*pos+k])
			}
			*pos += nb
			return cInt(v, w, sg)
		}
		var x *Term
		for k := 0; k < nb; k++ {
			b := m.term(in.get(*pos + k).(Int))
			if x == nil {
				x = b
			} else {
				x = m.ctx.Concat(x, b)
			}
		}
		*pos += nb
		return m.mk(x, sg)
	}
	unsupported("binary.Read of %s", t)
	return nil
}

func binSizeOf(t types.Type) int {
	switch u := t.Underlying().(type) {
	case *types.Struct:
		n := 0
		for i := 0; i < u.NumFields(); i++ {
			n += binSizeOf(u.Field(i).Type())
		}
		return n
	case *types.Array:
		return int(u.Len()) * binSizeOf(u.Elem())
	case *types.Basic:
		w, _ := widthOf(t)
		return w / 8
	}
	unsupported("binary size of %s", t)
	return 0
}

// ---------- symbolic byte search helpers ----------

// byteEqTerm returns the condition cell == c.
func (m *Machine) byteEq(x Int, c Int) *Term {
	if x.t == nil && c.t == nil {
		return m.ctx.Bool(x.c == c.c)
	}
	return m.ctx.Cmp(opEq, m.term(x), m.term(c))
}

// indexByte returns the first index of c in the cells, forking per position.
func (m *Machine) indexByte(arr *Array, off, n int, c Int) int {
	for i := 0; i < n; i++ {
		if m.branch(m.byteEq(arr.get(off+i).(Int), c)) {
			return i
		}
	}
	return -1
}

func (m *Machine) countByte(arr *Array, off, n int, c Int) Val {
	cnt := 0
	var sym *Term
	for i := 0; i < n; i++ {
		e := m.byteEq(arr.get(off+i).(Int), c)
		if e.isConst() {
			if e.isTrue() {
				cnt++
			}
			continue
		}
		one := m.ctx.Ite(e, m.ctx.BV(64, 1), m.ctx.BV(64, 0))
		if sym == nil {
			sym = one
		} else {
			sym = m.ctx.Bin(opAdd, sym, one)
		}
	}
	if sym == nil {
		return goInt(cnt)
	}
	return m.mk(m.ctx.Bin(opAdd, sym, m.ctx.BV(64, uint64(cnt))), true)
}

func (m *Machine) isSpaceTerm(x Int) *Term {
	if x.t == nil {
		switch x.c {
		case '\t', '\n', '\v', '\f', '\r', ' ':
			return m.ctx.tt
		}
		return m.ctx.ff
	}
	c := m.ctx
	r := c.Cmp(opEq, x.t, c.BV(8, ' '))
	// 9..13
	r = c.Or(r, c.And(c.Cmp(opUle, c.BV(8, 9), x.t), c.Cmp(opUle, x.t, c.BV(8, 13))))
	return r
}

// ---------- the intrinsic table ----------

func (m *Machine) intrinsic(fn *ssa.Function, args []Val) (Val, bool) {
	if fn.Pkg == nil {
		// methods of instantiated generics etc. have no Pkg; match by full name below
	}
	name := fn.String()
	if fn.Pkg == m.eng.pkg && strings.HasPrefix(fn.Name(), "Verif") {
		if r, ok := m.nondetIntrinsic(fn.Name(), args); ok {
			return r, true
		}
	}
	if fn.Pkg == m.eng.pkg {
		return nil, false
	}
	if r, ok := m.fsIntrinsic(name, args); ok {
		return r, true
	}
	if r, ok := m.zlibIntrinsic(name, args); ok {
		return r, true
	}
	c := m.ctx
	switch name {
	case "fmt.Errorf":
		return mkErr("fmt", safeSprintf(m.goString(args[0], "fmt.Errorf"), m.fmtArgs(args[1]))), true
	case "fmt.Sprintf":
		return mkStr(safeSprintf(m.goString(args[0], "fmt.Sprintf"), m.fmtArgs(args[1]))), true
	case "fmt.Sprint":
		return mkStr(fmt.Sprint(m.fmtArgs(args[0])...)), true
	case "fmt.Printf", "fmt.Println", "fmt.Print", "fmt.Fprintf", "log.Printf", "log.Println", "log.Print":
		return Tuple{goInt(0), nil}, true
	case "log.Panicf", "log.Fatalf":
		m.tpanic("logpanic", name+": "+safeSprintf(m.goString(args[0], name), m.fmtArgs(args[1])), m.callPos)
	case "log.Panic", "log.Fatal", "log.Panicln", "log.Fatalln":
		m.tpanic("logpanic", name, m.callPos)
	case "math/rand.NewSource", "math/rand.New":
		return &randObj{}, true
	case "(*math/rand.Rand).Uint32":
		m.rndCnt++
		return cInt(uint64(m.rndCnt), 32, false), true
	case "math/rand.Intn", "(*math/rand.Rand).Intn":
		return goInt(0), true
	case "time.Now":
		m.clock++
		return Int{c: uint64(m.clock), w: 64, sg: true}, true
	case "(time.Time).UnixNano":
		return args[0], true
	case "(time.Time).Add":
		return cInt(args[0].(Int).c+args[1].(Int).c, 64, true), true
	case "time.Unix":
		// an instant is its internal seconds count (Unix seconds plus the 1970 offset, wrapping like the real
		// int64 field); sub-second parts must be a concrete 0
		if ns := args[1].(Int); ns.t != nil || ns.c != 0 {
			unsupported("time.Unix with a nanosecond part")
		}
		sec := args[0].(Int)
		const unixToInternal = 62135596800
		if sec.t == nil {
			return Int{c: sec.c + unixToInternal, w: 64, sg: true}, true
		}
		return m.mk(m.ctx.Bin(opAdd, m.ctx.Resize(sec.t, 64, sec.sg), m.ctx.BV(64, unixToInternal)), true), true
	case "(time.Time).Before", "(time.Time).After":
		a, b := args[0].(Int), args[1].(Int)
		if name == "(time.Time).After" {
			a, b = b, a
		}
		if a.t == nil && b.t == nil {
			return cBool(int64(a.c) < int64(b.c)), true
		}
		tm := func(x Int) *Term {
			if x.t == nil {
				return m.ctx.BV(64, x.c)
			}
			return m.ctx.Resize(x.t, 64, x.sg)
		}
		return m.mk(m.ctx.Cmp(opSlt, tm(a), tm(b)), false), true
	case "time.Sleep":
		return nil, true
	case "path/filepath.Join":
		sl := args[0].(Slice)
		var parts []string
		for i := 0; i < sl.len; i++ {
			parts = append(parts, m.goString(sl.arr.cells[sl.off+i], name))
		}
		return mkStr(filepath.Join(parts...)), true
	case "strings.Join":
		sl := args[0].(Slice)
		sep := args[1].(Str)
		total := 0
		for i := 0; i < sl.len; i++ {
			total += sl.arr.cells[sl.off+i].(Str).n
			if i > 0 {
				total += sep.n
			}
		}
		if total == 0 {
			return Str{}, true
		}
		a := newByteArray(total)
		p := 0
		for i := 0; i < sl.len; i++ {
			if i > 0 && sep.n > 0 {
				copyRange(a, p, sep.arr, sep.off, sep.n)
				p += sep.n
			}
			s := sl.arr.cells[sl.off+i].(Str)
			if s.n > 0 {
				copyRange(a, p, s.arr, s.off, s.n)
				p += s.n
			}
		}
		return Str{arr: a, n: total}, true
	case "strings.TrimSpace":
		s := args[0].(Str)
		lo, hi := 0, s.n
		ascii := func(x Int) {
			if x.t == nil {
				if x.c >= 0x80 {
					panic(pathAbort{"cut: strings.TrimSpace on non-ASCII input"})
				}
				return
			}
			if m.branch(c.Not(c.Cmp(opUlt, x.t, c.BV(8, 0x80)))) {
				panic(pathAbort{"cut: strings.TrimSpace on symbolic non-ASCII byte (harness must assume ASCII)"})
			}
		}
		for lo < hi {
			x := s.at(lo)
			ascii(x)
			if !m.branch(m.isSpaceTerm(x)) {
				break
			}
			lo++
		}
		for hi > lo {
			x := s.at(hi - 1)
			ascii(x)
			if !m.branch(m.isSpaceTerm(x)) {
				break
			}
			hi--
		}
		if lo == hi {
			return Str{}, true
		}
		return Str{arr: s.arr, off: s.off + lo, n: hi - lo}, true
	case "reflect.DeepEqual":
		toStrs := func(v Val) ([]string, bool) {
			ifc, ok := v.(Iface)
			if !ok {
				return nil, true
			}
			sl, ok := ifc.v.(Slice)
			if !ok {
				unsupported("reflect.DeepEqual on %T", ifc.v)
			}
			if sl.isNil {
				return nil, true
			}
			out := []string{}
			for i := 0; i < sl.len; i++ {
				out = append(out, m.goString(sl.arr.cells[sl.off+i], name))
			}
			return out, false
		}
		a, an := toStrs(args[0])
		b, bn := toStrs(args[1])
		eq := an == bn && len(a) == len(b)
		for i := 0; eq && i < len(a); i++ {
			eq = a[i] == b[i]
		}
		return cBool(eq), true
	case "encoding/binary.Write":
		data := args[2].(Iface)
		v, t := data.v, data.typ
		if p, ok := t.Underlying().(*types.Pointer); ok {
			v, t = data.v.(Ptr).load(), p.Elem()
		}
		n := binSizeOf(t)
		out := newByteArray(n)
		pos := 0
		m.flatten(v, t, out, &pos)
		r := m.invoke(args[0], "Write", Slice{arr: out, len: n, cap: n}).(Tuple)
		return r[1], true
	case "encoding/binary.Read":
		data := args[2].(Iface)
		p := data.v.(Ptr)
		et := data.typ.Underlying().(*types.Pointer).Elem()
		n := binSizeOf(et)
		buf := newByteArray(n)
		// io.ReadFull semantics
		got := 0
		for got < n {
			r := m.invoke(args[0], "Read", Slice{arr: buf, off: got, len: n - got, cap: n - got}).(Tuple)
			k := m.cInt(r[0], "read count")
			got += k
			if r[1] != nil {
				if got < n {
					if got == 0 {
						return r[1], true
					}
					return m.ioErr("ErrUnexpectedEOF"), true
				}
				break
			}
			if k == 0 {
				return m.ioErr("ErrNoProgress"), true
			}
		}
		pos := 0
		m.store(p, m.unflatten(et, buf, &pos), m.eng.noPos)
		return nil, true
	case "hash/crc32.NewIEEE":
		return Iface{nativeCRCType, &crcState{arr: newByteArray(0)}}, true
	case "hash/crc32.ChecksumIEEE":
		arr, off, n := m.byteCells(args[0])
		return m.crcOf(arr, off, n), true
	case "internal/bytealg.MakeNoZero":
		n := m.cInt(args[0], "MakeNoZero")
		return Slice{arr: newByteArray(n), len: n, cap: n}, true
	case "bytes.Compare", "internal/bytealg.Compare":
		aa, ao, an := m.byteCells(args[0])
		ba, bo, bn := m.byteCells(args[1])
		a, b := Str{aa, ao, an}, Str{ba, bo, bn}
		lt, eq := m.strLess(a, b), m.strEq(a, b)
		return m.mk(c.Ite(eq, c.BV(64, 0), c.Ite(lt, c.BV(64, ^uint64(0)), c.BV(64, 1))), true), true
	case "strings.Compare":
		a, b := args[0].(Str), args[1].(Str)
		lt, eq := m.strLess(a, b), m.strEq(a, b)
		return m.mk(c.Ite(eq, c.BV(64, 0), c.Ite(lt, c.BV(64, ^uint64(0)), c.BV(64, 1))), true), true
	case "bytes.Equal", "internal/bytealg.Equal":
		aa, ao, an := m.byteCells(args[0])
		ba, bo, bn := m.byteCells(args[1])
		return m.mk(m.strEq(Str{aa, ao, an}, Str{ba, bo, bn}), false), true
	case "internal/bytealg.IndexByte", "internal/bytealg.IndexByteString", "bytes.IndexByte", "strings.IndexByte":
		arr, off, n := m.byteCells(args[0])
		return goInt(m.indexByte(arr, off, n, args[1].(Int))), true
	case "internal/bytealg.Count", "internal/bytealg.CountString":
		arr, off, n := m.byteCells(args[0])
		return m.countByte(arr, off, n, args[1].(Int)), true
	case "internal/bytealg.Index", "internal/bytealg.IndexString":
		// first occurrence of b in a, forking per candidate position
		aa, ao, an := m.byteCells(args[0])
		ba, bo, bn := m.byteCells(args[1])
		for i := 0; i+bn <= an; i++ {
			if m.branch(m.strEq(Str{aa, ao + i, bn}, Str{ba, bo, bn})) {
				return goInt(i), true
			}
		}
		return goInt(-1), true
	case "internal/cpu.Initialize", "internal/cpu.doinit":
		return nil, true
	case "(*sync.Mutex).Lock", "(*sync.RWMutex).Lock", "(*sync.RWMutex).RLock":
		if m.frozen != nil && m.frozen[args[0].(Ptr).loc] {
			m.locked++
		}
		return nil, true
	case "(*sync.Mutex).Unlock", "(*sync.RWMutex).Unlock", "(*sync.RWMutex).RUnlock":
		if m.frozen != nil && m.frozen[args[0].(Ptr).loc] && m.locked > 0 {
			m.locked--
		}
		return nil, true
	case "(*sync.Map).Load", "(*sync.Map).Store", "(*sync.Map).LoadOrStore", "(*sync.Map).Delete":
		// sync.Map as an association list attached to the variable's location;
		// its accesses are synchronised, so they are not shared writes (C19)
		loc := args[0].(Ptr).loc
		if m.syncMaps == nil {
			m.syncMaps = map[*Val]*MapV{}
		}
		mv := m.syncMaps[loc]
		if mv == nil {
			mv = &MapV{}
			m.syncMaps[loc] = mv
		}
		idx := m.mapFind(mv, args[1])
		switch name {
		case "(*sync.Map).Load":
			if idx >= 0 {
				return Tuple{copyVal(mv.vals[idx]), cBool(true)}, true
			}
			return Tuple{nil, cBool(false)}, true
		case "(*sync.Map).Store":
			if idx >= 0 {
				mv.vals[idx] = copyVal(args[2])
			} else {
				mv.keys = append(mv.keys, args[1])
				mv.vals = append(mv.vals, copyVal(args[2]))
			}
			return nil, true
		case "(*sync.Map).LoadOrStore":
			if idx >= 0 {
				return Tuple{copyVal(mv.vals[idx]), cBool(true)}, true
			}
			mv.keys = append(mv.keys, args[1])
			mv.vals = append(mv.vals, copyVal(args[2]))
			return Tuple{copyVal(args[2]), cBool(false)}, true
		default:
			if idx >= 0 {
				mv.keys = append(mv.keys[:idx:idx], mv.keys[idx+1:]...)
				mv.vals = append(mv.vals[:idx:idx], mv.vals[idx+1:]...)
			}
			return nil, true
		}
	case "unicode/utf8.RuneCountInString", "unicode/utf8.RuneCount":
		arr, off, n := m.byteCells(args[0])
		if n > 0 && arr.hasSym(off, n) {
			panic(pathAbort{"cut: utf8 rune count of symbolic bytes"})
		}
		var b []byte
		if n > 0 {
			b = arr.b[off : off+n]
		}
		return goInt(len([]rune(string(b)))), true
	}
	return nil, false
}

func (m *Machine) ioErr(name string) Val {
	p := m.eng.prog.ImportedPackage("io")
	if p == nil {
		return mkErr("eof", name)
	}
	g, ok := p.Members[name].(*ssa.Global)
	if !ok {
		return mkErr("eof", name)
	}
	return m.global(g).load()
}

// invokeNative handles interface method calls on native objects.
func (m *Machine) invokeNative(v Val, name string, args []Val) (Val, bool) {
	switch x := v.(type) {
	case *crcState:
		switch name {
		case "Write":
			arr, off, n := m.byteCells(args[0])
			if n > 0 {
				na := newByteArray(x.n + n)
				copyRange(na, 0, x.arr, 0, x.n)
				copyRange(na, x.n, arr, off, n)
				x.arr, x.n = na, x.n+n
			}
			return Tuple{goInt(n), nil}, true
		case "Sum32":
			return m.crcOf(x.arr, 0, x.n), true
		case "Reset":
			x.arr, x.n = newByteArray(0), 0
			return nil, true
		}
		unsupported("crc method %s", name)
	case *zrObj:
		return m.zrInvoke(x, name, args)
	case *zwObj:
		switch name {
		case "Write":
			r, _ := m.zlibIntrinsic("(*compress/zlib.Writer).Write", append([]Val{x}, args...))
			return r, true
		case "Close":
			r, _ := m.zlibIntrinsic("(*compress/zlib.Writer).Close", []Val{x})
			return r, true
		}
	case *fileObj:
		r, ok := m.fsIntrinsic("(*os.File)."+name, append([]Val{x}, args...))
		if !ok {
			unsupported("file method %s", name)
		}
		return r, true
	case *fileInfo:
		switch name {
		case "Size":
			return goInt(x.size), true
		case "Name":
			return mkStr(x.name), true
		case "IsDir":
			return cBool(false), true
		}
		unsupported("FileInfo method %s", name)
	case *nativeErr:
		if name == "Error" {
			return mkStr(x.msg), true
		}
	}
	return nil, false
}
