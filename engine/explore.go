package main

import (
	"fmt"
	"go/token"
	"os"
	"sort"
	"strings"
	"sync"
	"sync/atomic"
	"time"

	"golang.org/x/tools/go/packages"
	"golang.org/x/tools/go/ssa"
	"golang.org/x/tools/go/ssa/ssautil"
)

// Engine holds what is shared by all workers: the SSA program of the current
// /repo working tree plus the harness overlay, and the run configuration.
type Engine struct {
	prog    *ssa.Program
	pkg     *ssa.Package
	repoDir string
	verifDir string
	noPos   token.Pos
	tier    int
	seed    int64
	workers int
	solver  string

	maxSteps      int
	maxDecisions  int
	maxConcretize int
	maxAlloc      int
	maxPaths      int64
	deadline      time.Time

	harnessDocs map[string]string
	loadTime    time.Duration
}

func (e *Engine) fill(i int) uint64 {
	// deterministic completion of unconstrained inputs from the seed
	x := uint64(e.seed)*0x9E3779B97F4A7C15 + uint64(i+1)*0xBF58476D1CE4E5B9
	x ^= x >> 31
	x *= 0x94D049BB133111EB
	x ^= x >> 29
	return x
}

func loadEngine(repoDir string, overlay map[string][]byte) (*Engine, error) {
	t0 := time.Now()
	cfg := &packages.Config{
		Mode:       packages.LoadAllSyntax,
		Dir:        repoDir,
		Overlay:    overlay,
		BuildFlags: []string{"-tags=verif"},
		Env:        append(os.Environ(), "GOFLAGS=-mod=mod", "GOPROXY=off", "GOSUMDB=off", "GOTOOLCHAIN=local"),
	}
	pkgs, err := packages.Load(cfg, ".")
	if err != nil {
		return nil, err
	}
	var errs []string
	packages.Visit(pkgs, nil, func(p *packages.Package) {
		for _, e := range p.Errors {
			errs = append(errs, e.Error())
		}
	})
	if len(errs) > 0 {
		return nil, fmt.Errorf("package load errors:\n%s", strings.Join(errs, "\n"))
	}
	prog, spkgs := ssautil.AllPackages(pkgs, ssa.InstantiateGenerics)
	prog.Build()
	e := &Engine{prog: prog, pkg: spkgs[0], repoDir: repoDir, harnessDocs: map[string]string{},
		maxSteps: 20_000_000, maxDecisions: 4000, maxConcretize: 256, maxAlloc: 1 << 26, workers: 16, solver: "z3"}
	for _, f := range pkgs[0].Syntax {
		for _, d := range f.Decls {
			if fd, ok := d.(interface{ Pos() token.Pos }); ok {
				_ = fd
			}
		}
	}
	collectDocs(pkgs[0], e.harnessDocs)
	e.loadTime = time.Since(t0)
	return e, nil
}

// ---------- per-harness run state ----------

type PathSample struct {
	Harness   string   `json:"harness"`
	Decisions int      `json:"decisions"`
	Covers    []string `json:"covers,omitempty"`
	Vector    []int64  `json:"vector,omitempty"`
	Outcome   string   `json:"outcome"`
}

type HarnessRun struct {
	name string
	fn   *ssa.Function
	mu   sync.Mutex

	paths, completed, infeasible, cuts, violPaths int64
	decisions                                     int64
	nontrivial                                    int64
	nObligations                                  int64
	cutReasons                                    map[string]int
	covers                                        map[string]int
	coverVec                                      map[string][]int64
	asserts                                       map[string]int
	funcs                                         map[string]bool
	viols                                         []Violation
	samples                                       []PathSample
	xcheck                                        []replayCase
	notes                                         map[string]int
	engineErr                                     string
	wall                                          time.Duration
	sat, unsat, unknown, solverErrs, qhits        int
	solverTime                                    time.Duration
	truncated                                     bool
}

func (h *HarnessRun) noteAssert(label string) {
	h.mu.Lock()
	h.asserts[label]++
	h.mu.Unlock()
}

type Worker struct {
	id         int
	eng        *Engine
	ctx        *TermCtx
	sol        *Solver
	constCache map[*ssa.Const]Val
	qcache     map[string]qcacheEntry
	qhits      int
	fnInfos    map[*ssa.Function]*fnInfo
	sincePaths int
}

func (w *Worker) reset() {
	w.ctx = NewTermCtx()
	w.sol.ResetAll()
	w.qcache = map[string]qcacheEntry{}
	w.sincePaths = 0
}

// runPath executes one path (decision prefix) of the harness.
func (w *Worker) runPath(h *HarnessRun, prefix []int64) (alts [][]int64) {
	e := w.eng
	if w.sincePaths > 3000 || w.ctx.cnt > 3_000_000 {
		w.reset()
	}
	w.sincePaths++
	m := &Machine{eng: e, w: w, ctx: w.ctx, sol: w.sol, h: h, prefix: prefix,
		pcSet: map[*Term]bool{}, globals: map[*ssa.Global]*Val{}, inited: map[*ssa.Package]bool{}, funcs: map[string]bool{}}
	m.uf = map[*Term]*Term{}
	outcome := "complete"
	ok := true
	func() {
		defer func() {
			if r := recover(); r != nil {
				switch x := r.(type) {
				case pathAbort:
					switch {
					case x.why == "infeasible":
						outcome = "infeasible"
					case x.why == "violation":
						outcome = "violation"
					default:
						outcome = x.why
					}
				case targetPanic:
					outcome = "panic"
					if !m.replaying() {
						m.violate(Violation{Kind: "panic", Label: x.kind, Fn: x.fn, Pos: x.pos, Msg: x.msg})
					}
				case engineError:
					stack := ""
					for k := len(m.curFn) - 1; k >= 0 && k >= len(m.curFn)-8; k-- {
						stack += " <- " + m.curFn[k].String()
					}
					outcome = "engine: " + x.msg + " [stack:" + stack + "]"
					ok = false
				default:
					panic(r)
				}
			}
		}()
		m.initPackage(e.pkg)
		m.call(h.fn, nil)
	}()
	if m.fs != nil && len(m.fs.trace) > 0 {
		m.observes = append(m.observes, "trace "+strings.Join(m.fs.trace, " | "))
	}
	if w.ctx.checkSimp && len(w.ctx.pending) > 0 {
		// validate the simplifier: naive != simplified must be unsat (context-free)
		for _, p := range w.ctx.pending {
			var ne *Term
			if p[0].w == 0 {
				ne = w.ctx.Not(w.ctx.intern(&Term{op: opEq, args: []*Term{p[0], p[1]}, name: "raw"}))
			} else {
				ne = w.ctx.Not(w.ctx.intern(&Term{op: opEq, args: []*Term{p[0], p[1]}, name: "raw"}))
			}
			if r := w.sol.Check(ne); r != "unsat" {
				h.mu.Lock()
				if h.engineErr == "" {
					h.engineErr = "engine: SIMPLIFIER UNSOUND (" + r + "): " + p[0].String() + "  vs  " + p[1].String()
				}
				h.mu.Unlock()
			}
			h.mu.Lock()
			h.notes["simplifier rewrites validated"]++
			h.mu.Unlock()
		}
		w.ctx.pending = nil
	}
	_ = ok

	h.mu.Lock()
	defer h.mu.Unlock()
	h.paths++
	h.decisions += int64(len(m.decisions))
	for f := range m.funcs {
		h.funcs[f] = true
	}
	for _, n := range m.notes {
		h.notes[n]++
	}
	switch {
	case outcome == "complete":
		h.completed++
		if len(m.decisions) > 0 || len(m.inputs) > 0 {
			h.nontrivial++
		}
		for _, c := range m.covers {
			h.covers[c]++
		}
	case outcome == "infeasible":
		h.infeasible++
	case outcome == "violation" || outcome == "panic":
		h.violPaths++
	case strings.HasPrefix(outcome, "engine: "):
		if h.engineErr == "" {
			h.engineErr = outcome
		}
	default:
		h.cuts++
		h.cutReasons[outcome]++
	}
	h.viols = append(h.viols, m.viols...)
	// path samples and witnesses: take a model of the complete path
	if outcome == "complete" {
		needCover := false
		for _, c := range m.covers {
			if _, ok := h.coverVec[c]; !ok {
				needCover = true
			}
		}
		wantSample := len(h.samples) < 6
		wantX := len(h.xcheck) < e.xcheckPerHarness()
		if needCover || wantSample || wantX {
			if md := m.fullModel(); md != nil {
				vec := m.vector(md)
				for _, c := range m.covers {
					if _, ok := h.coverVec[c]; !ok {
						h.coverVec[c] = vec
					}
				}
				if wantSample {
					h.samples = append(h.samples, PathSample{Harness: h.name, Decisions: len(m.decisions), Covers: m.covers, Vector: vec, Outcome: outcome})
				}
				if wantX {
					h.xcheck = append(h.xcheck, replayCase{Harness: h.name, Vector: vec, ExpectCovers: m.covers, ExpectObserves: m.observes})
				}
			}
		}
	}
	return m.alts
}

func (e *Engine) xcheckPerHarness() int {
	if e.tier > 0 {
		return 24
	}
	return 6
}

// explore runs all paths of a harness on e.workers workers.
func (e *Engine) explore(h *HarnessRun) {
	t0 := time.Now()
	var mu sync.Mutex
	cond := sync.NewCond(&mu)
	queue := [][]int64{{}}
	idle := 0
	var stop int32
	var wg sync.WaitGroup
	workers := make([]*Worker, e.workers)
	for i := range workers {
		workers[i] = &Worker{id: i, eng: e, ctx: NewTermCtx(), sol: NewSolver(e.solver, int(e.seed)), constCache: map[*ssa.Const]Val{}, qcache: map[string]qcacheEntry{}, fnInfos: map[*ssa.Function]*fnInfo{}}
	}
	for _, w := range workers {
		wg.Add(1)
		go func(w *Worker) {
			defer wg.Done()
			var local [][]int64
			for {
				var prefix []int64
				if len(local) > 0 {
					prefix = local[len(local)-1]
					local = local[:len(local)-1]
					// donate the shallowest pending prefix when someone is idle
					mu.Lock()
					if idle > 0 && len(local) > 0 {
						queue = append(queue, local[0])
						local = local[1:]
						cond.Signal()
					}
					mu.Unlock()
				} else {
					mu.Lock()
					for len(queue) == 0 {
						idle++
						if idle == len(workers) || atomic.LoadInt32(&stop) != 0 {
							cond.Broadcast()
							mu.Unlock()
							return
						}
						cond.Wait()
						idle--
						if atomic.LoadInt32(&stop) != 0 {
							idle++
							cond.Broadcast()
							mu.Unlock()
							return
						}
					}
					prefix = queue[len(queue)-1]
					queue = queue[:len(queue)-1]
					mu.Unlock()
				}
				if atomic.LoadInt32(&stop) != 0 {
					return
				}
				alts := w.runPath(h, prefix)
				// DFS order: the first alternative found is explored last
				local = append(local, alts...)
				h.mu.Lock()
				over := h.engineErr != "" || (e.maxPaths > 0 && h.paths >= e.maxPaths) || (!e.deadline.IsZero() && time.Now().After(e.deadline)) || int64(len(h.viols)) > 200
				if over && h.engineErr == "" && int64(len(h.viols)) <= 200 {
					h.truncated = true
				}
				h.mu.Unlock()
				if over {
					atomic.StoreInt32(&stop, 1)
					mu.Lock()
					cond.Broadcast()
					mu.Unlock()
					return
				}
			}
		}(w)
	}
	doneCh := make(chan struct{})
	if os.Getenv("VERIF_PROGRESS") != "" {
		go func() {
			tk := time.NewTicker(10 * time.Second)
			defer tk.Stop()
			for {
				select {
				case <-doneCh:
					return
				case <-tk.C:
					h.mu.Lock()
					p, v := h.paths, len(h.viols)
					h.mu.Unlock()
					mu.Lock()
					q := len(queue)
					mu.Unlock()
					fmt.Fprintf(os.Stderr, "  .. %s: paths=%d viols=%d sharedqueue=%d wall=%s\n", h.name, p, v, q, fmtDur(time.Since(t0)))
				}
			}
		}()
	}
	wg.Wait()
	close(doneCh)
	for _, w := range workers {
		h.sat += w.sol.nSat
		h.unsat += w.sol.nUnsat
		h.unknown += w.sol.nUnknown
		h.solverErrs += w.sol.nErr
		h.solverTime += w.sol.dur
		h.qhits += w.qhits
		w.sol.Close()
	}
	h.wall = time.Since(t0)
}

func newHarnessRun(name string, fn *ssa.Function) *HarnessRun {
	return &HarnessRun{name: name, fn: fn, cutReasons: map[string]int{}, covers: map[string]int{}, coverVec: map[string][]int64{},
		asserts: map[string]int{}, funcs: map[string]bool{}, notes: map[string]int{}}
}

func sortedKeys(m map[string]bool) []string {
	var out []string
	for k := range m {
		out = append(out, k)
	}
	sort.Strings(out)
	return out
}
