package main

import (
	"encoding/json"
	"fmt"
	"go/ast"
	"os"
	"path/filepath"
	"sort"
	"strings"
	"time"

	"golang.org/x/tools/go/packages"
)

func collectDocs(p *packages.Package, out map[string]string) {
	for _, f := range p.Syntax {
		for _, d := range f.Decls {
			fd, ok := d.(*ast.FuncDecl)
			if !ok || fd.Recv != nil || !strings.HasPrefix(fd.Name.Name, "Harness_") {
				continue
			}
			if fd.Doc != nil {
				out[fd.Name.Name] = strings.TrimSpace(fd.Doc.Text())
			}
		}
	}
}

// ---------- known findings ----------

type Finding struct {
	Property  string `json:"property"`
	Status    string `json:"status"` // "known" or "fixed"
	Harness   string `json:"harness,omitempty"`
	Kind      string `json:"kind,omitempty"`
	Label     string `json:"label,omitempty"`
	Fn        string `json:"fn,omitempty"`
	What      string `json:"what"`
	Commit    string `json:"commit,omitempty"`
}

func loadFindings(path string) []Finding {
	b, err := os.ReadFile(path)
	if err != nil {
		return nil
	}
	var f struct {
		Findings []Finding `json:"findings"`
	}
	if json.Unmarshal(b, &f) != nil {
		return nil
	}
	return f.Findings
}

// signature identifies a violation independently of solver-chosen bytes and
// of line numbers: harness + kind + label (+ function for panics and monitors).
func (v *Violation) signature(harness string) string {
	fn := v.Fn
	if i := strings.LastIndex(fn, "/"); i >= 0 {
		fn = fn[i+1:]
	}
	switch v.Kind {
	case "assert":
		return harness + "|assert|" + v.Label
	case "panic":
		if v.Label == "hang" {
			return harness + "|panic|hang" // the budget runs out at an arbitrary place
		}
		if v.Label == "alloc" && strings.Contains(v.Msg, "budget") {
			return harness + "|panic|alloc-budget" // likewise
		}
		return harness + "|panic|" + v.Label + "|" + fn
	}
	return harness + "|" + v.Kind + "|" + v.Label
}

func matchFinding(fs []Finding, prop, harness string, v *Violation) *Finding {
	fn := v.Fn
	if i := strings.LastIndex(fn, "/"); i >= 0 {
		fn = fn[i+1:]
	}
	for i := range fs {
		f := &fs[i]
		if f.Status != "known" || f.Property != prop {
			continue
		}
		if f.Harness != "" && f.Harness != harness {
			continue
		}
		if f.Kind != "" && f.Kind != v.Kind {
			continue
		}
		if f.Label != "" && f.Label != v.Label {
			continue
		}
		if f.Fn != "" && f.Fn != fn {
			continue
		}
		return f
	}
	return nil
}

// ---------- evidence ----------

type HarnessEvidence struct {
	Name        string         `json:"name"`
	Doc         string         `json:"doc,omitempty"`
	Paths       int64          `json:"paths"`
	Complete    int64          `json:"complete_paths"`
	Infeasible  int64          `json:"infeasible_paths"`
	ViolPaths   int64          `json:"violating_paths"`
	Cuts        int64          `json:"cut_paths"`
	CutReasons  map[string]int `json:"cut_reasons,omitempty"`
	Decisions   int64          `json:"decisions"`
	Nontrivial  int64          `json:"nontrivial_complete_paths"`
	Obligations int64          `json:"assert_queries"`
	Asserts     map[string]int `json:"assert_labels_hit"`
	Covers      map[string]int `json:"cover_labels_hit"`
	Sat         int            `json:"queries_sat"`
	Unsat       int            `json:"queries_unsat"`
	Unknown     int            `json:"queries_unknown"`
	SolverTimeS float64        `json:"solver_time_s"`
	WallS       float64        `json:"wall_s"`
	Funcs       int            `json:"functions_encoded"`
	Notes       map[string]int `json:"notes,omitempty"`
	XChecked    int            `json:"native_crosschecks_agreed"`
	XFailed     []string       `json:"native_crosscheck_disagreements,omitempty"`
}

type Evidence struct {
	PropertyID  string                 `json:"property_id"`
	Tier        string                 `json:"tier"`
	Seed        int64                  `json:"seed"`
	Level       string                 `json:"level"`
	Coverage    map[string]interface{} `json:"coverage"`
	Assumptions []string               `json:"assumptions"`
	WallS       float64                `json:"wall_s"`
	Violations  int                    `json:"violations"`
}

func writeJSON(path string, v interface{}) error {
	b, err := json.MarshalIndent(v, "", " ")
	if err != nil {
		return err
	}
	os.MkdirAll(filepath.Dir(path), 0o755)
	tmp := path + ".tmp"
	if err := os.WriteFile(tmp, append(b, '\n'), 0o644); err != nil {
		return err
	}
	return os.Rename(tmp, path)
}

var stubAssumptions = []string{
	"go/ssa (x/tools v0.29.0) translation of /repo's current working tree is faithful; engine instruction semantics validated by per-run native cross-checks",
	"solver: z3 4.8.12 (-in), bit-vector + UF terms, no set-logic; any (error line or unknown makes the run inconclusive (exit 2)",
	"stub fmt.Sprintf/Errorf/log.Printf: native on concrete arguments, opaque otherwise; no control flow depends on message text",
	"stub hash/crc32 IEEE: native on concrete bytes, uninterpreted function on symbolic bytes (functional consistency only)",
	"stub compress/zlib: real zlib on concrete bytes; stored-block codec as compress/flate emits it (16 bytes overhead per 16 KiB) on symbolic bytes; reads in 32 KiB window chunks with compress/flate's EOF timing, trailer consumed from a bytes.Buffer source by the Read that reports EOF; hostile deflate streams outside reach",
	"stub encoding/binary.Read/Write: big-endian field-order (de)serialisation of fixed-size values",
	"stub time: logical clock; math/rand: successive distinct values (no table-name collisions); map iteration in insertion order",
	"lengths of strings/slices are concrete per path (case split by the harness); bytes and integers are symbolic bit-vectors",
}

var cAssumptions = []string{
	"C side: /repo/c/*.c (all but tests and dump.c) and harness/cshim.c are compiled with clang-14 -O1 to LLVM IR and linked with llvm-link on every run; the IR is interpreted by engine/llir.go (byte-granular bounds-checked objects, use-after-free and double-free detection, indirect calls through the real vtables); clang's translation of C to IR at -O1 is trusted, the replay runs the natively compiled code under AddressSanitizer",
	"C side stubs: malloc/calloc/realloc never fail; uninitialised memory reads as an arbitrary but fixed byte; strlen/strcmp/strncmp/strchr/strncpy/memcmp/bcmp/memcpy/memmove/memset by their ISO C meaning; zlib crc32 = the Go side's crc32 stub; open/close/read/pread/write/lseek/fstat/unlink/rename/mkstemp/opendir = the model filesystem of the Go side (same namespace, process identities, monitors); gettimeofday = logical clock; rand = successive distinct values; compress2/uncompress2 = the zlib stub above (so deflate streams are byte-identical between the two sides in the model; natively each side runs its own zlib)",
	"C side: pointers are (object, offset) pairs and are concrete per path; a pointer is never forged from symbolic bytes; symbolic array indices are case split; floating point (compress bound estimate in block_writer_finish) only on concrete values",
}

var fsAssumptions = []string{
	"model filesystem (DESIGN.md 3.3): POSIX directory semantics, O_EXCL honoured as passed, atomic rename, no I/O faults besides exist/not-exist/closed, no power loss",
	"schedules: context-bounded (bound stated per harness), preemption only at steps naming shared paths unless stated otherwise; crash points at every filesystem step",
}

func (h *HarnessRun) evidence(e *Engine) HarnessEvidence {
	return HarnessEvidence{Name: h.name, Doc: e.harnessDocs[h.name], Paths: h.paths, Complete: h.completed, Infeasible: h.infeasible, ViolPaths: h.violPaths,
		Cuts: h.cuts, CutReasons: h.cutReasons, Decisions: h.decisions, Nontrivial: h.nontrivial, Obligations: h.nObligations,
		Asserts: h.asserts, Covers: h.covers, Sat: h.sat, Unsat: h.unsat, Unknown: h.unknown, SolverTimeS: h.solverTime.Seconds(),
		WallS: h.wall.Seconds(), Funcs: len(h.funcs), Notes: h.notes}
}

func fmtDur(d time.Duration) string { return fmt.Sprintf("%.1fs", d.Seconds()) }

func sortedFuncs(runs []*HarnessRun) []string {
	all := map[string]bool{}
	for _, h := range runs {
		for f := range h.funcs {
			all[f] = true
		}
	}
	out := sortedKeys(all)
	sort.Strings(out)
	return out
}
