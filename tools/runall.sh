#!/bin/bash
# usage: tools/runall.sh [quick|thorough] [ids...]   runs the checks on /repo's current tree and summarises
cd "$(dirname "$0")/.."
tier="${1:-quick}"; shift
ids="$@"; [ -z "$ids" ] && ids="C01 C02 C03 C04 C05 C06 C07 C08 C09 C10 C11 C12 C13 C14 C15 C16 C17 C18 C19"
for p in $ids; do
  s=$(date +%s)
  ./check $p --tier $tier > /tmp/runall_$p.out 2>&1; rc=$?
  e=$(( $(date +%s) - s ))
  echo "$p exit=$rc ${e}s $(grep -c '^VIOLATION' /tmp/runall_$p.out) violations $(grep -c '^KNOWN' /tmp/runall_$p.out) known $(grep -m1 '^INCONCLUSIVE' /tmp/runall_$p.out | cut -c1-160)"
done
