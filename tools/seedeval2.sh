#!/bin/bash
# usage: tools/seedeval2.sh <src-dir-with-patch.diff-demo_test.go-notes.md> <seed-id e.g. R6-C04-1> <property> [more properties...]
# Like seedeval.sh, but the checks run against a scratch worktree of /repo HEAD with the change applied
# (VERIF_REPO), with evidence and replay files redirected to a scratch directory, so several seeds can be
# evaluated side by side and /repo itself stays untouched.  Equivalent to `git -C /repo apply`, run, undo.
set -u
src="$1"; id="$2"; shift 2
props="$@"
export GOFLAGS=-mod=mod GOPROXY=off GOSUMDB=off GOTOOLCHAIN=local
V=/verif
out=$V/seeded/$id
mkdir -p $out
cp "$src/patch.diff" $out/patch.diff
cp "$src/demo_test.go" $out/demo_test.go
[ -f "$src/notes.md" ] && cp "$src/notes.md" $out/notes.md
[ -f "$src/demo.sh" ] && cp "$src/demo.sh" $out/demo.sh
wt=$(mktemp -d /tmp/seedwt.XXXXXX)
scratch=$(mktemp -d /tmp/seedev.XXXXXX)
log=/tmp/seedlog/$id; mkdir -p $log
git -C /repo worktree add -q --detach $wt HEAD
suite="?"; demo_with="?"; demo_without="?"
DEMOFLAGS=""; case "$id" in *C19*) DEMOFLAGS="-race";; esac
[ -f "$out/demo.sh" ] && cp $out/demo.sh $wt/demo.sh
cp $out/demo_test.go $wt/zz_seed_demo_test.go
( cd $wt && timeout 900 go test $DEMOFLAGS -vet=off -count=1 -run 'TestSeed' . >$log/demo_without.out 2>&1 ) && demo_without=pass || demo_without=fail
rm -f $wt/zz_seed_demo_test.go
( cd $wt && git apply $out/patch.diff ) || { echo "$id: patch does not apply"; git -C /repo worktree remove --force $wt; rm -rf $scratch; exit 2; }
( cd $wt && timeout 900 go test -vet=off -count=1 ./... >$log/suite.out 2>&1 ) && suite=pass || suite=FAIL
cp $out/demo_test.go $wt/zz_seed_demo_test.go
( cd $wt && timeout 900 go test $DEMOFLAGS -vet=off -count=1 -run 'TestSeed' . >$log/demo_with.out 2>&1 ) && demo_with=pass || demo_with=fail
rm -f $wt/zz_seed_demo_test.go $wt/demo.sh
echo "$id: suite-with-change=$suite demo-with-change=$demo_with demo-without-change=$demo_without"
results=""
if [ "$suite" = pass ] && [ "$demo_with" = fail ] && [ "$demo_without" = pass ]; then
  for p in $props; do
    ( cd $V && VERIF_REPO=$wt VERIF_EVIDENCE_DIR=$scratch VERIF_REPLAY_DIR=$scratch/replays timeout 2400 ./check $p --tier quick > $log/check_$p.out 2>&1 ); rc=$?
    v=$(grep -c '^VIOLATION' $log/check_$p.out)
    first=$(grep -m1 -A1 '^VIOLATION' $log/check_$p.out | tail -1 | cut -c1-160)
    echo "$id:   check $p: exit=$rc violations=$v $first"
    results="$results{\"property\":\"$p\",\"exit\":$rc,\"violation_lines\":$v},"
  done
fi
git -C /repo worktree remove --force $wt
rm -rf $scratch
python3 - "$out" "$id" "$suite" "$demo_with" "$demo_without" "[${results%,}]" "$props" <<'PY'
import json,sys
out,id,suite,dw,dwo,res,props=sys.argv[1:8]
prop=[p for p in id.split('-') if p.startswith('C') and p[1:].isdigit()][0]
meta={"seed":id,"breaks_property":prop,"suite_with_change":suite,"demo_with_change":dw,"demo_without_change":dwo,
"checks_run":json.loads(res),"what_i_ran":"tools/seedeval2.sh: scratch worktree of /repo HEAD: demo copied in as zz_seed_demo_test.go and run with -run TestSeed without the change; git apply patch.diff; go test -vet=off -count=1 ./... ; demo again with the change; then, with the change still applied in that worktree, VERIF_REPO=<worktree> ./check <property> --tier quick for: "+props+" (evidence and replay files redirected to a scratch directory); worktree removed"}
try:
    meta["needs_to_manifest"]=open(out+"/notes.md").read()
except Exception: pass
json.dump(meta,open(out+"/meta.json","w"),indent=1)
PY
