#!/bin/bash
# usage: tools/repofix.sh <commit-message-file>
# Runs the pinned test suite (guard off) on /repo's working tree and commits only if it passes.
set -u
cd /repo || exit 2
export GOFLAGS=-mod=mod GOPROXY=off GOSUMDB=off GOTOOLCHAIN=local
timeout 600 go test -vet=off -count=1 ./... > /tmp/repofix.out 2>&1
rc=$?
tail -3 /tmp/repofix.out
if [ $rc -ne 0 ]; then echo "TESTS FAILED (rc=$rc): not committing"; exit 1; fi
git commit -q -a -F "$1" && git log --oneline | head -1
