#!/usr/bin/env python3
"""Regenerates /verif/MANIFEST.json from the table below (keeps it valid at all times)."""
import json, os, sys
HERE = os.path.dirname(os.path.dirname(os.path.abspath(__file__)))
TECH = "bounded symbolic execution of the real Go code (go/ssa -> SMT bit-vectors, z3), path forking, native replay of counterexamples"
BASE_NOTE = ("Trusted base: go/ssa construction, the engine's instruction semantics and stubs (validated by native cross-checks of sampled paths on every run), z3. "
             "Claim is bounded: nothing outside the bounds listed in the evidence file is decided. Stubs: fmt/log (opaque), crc32 (UF on symbolic bytes), zlib (real on concrete, stored-block codec on symbolic), time/rand (logical).")
FSNOTE = BASE_NOTE + " Filesystem, processes, schedules and crashes are an in-engine model (DESIGN.md section 3): POSIX directory semantics, O_EXCL as passed by the code, atomic rename, no I/O faults, no power loss; schedules are context-bounded; counterexamples are replayed against the real filesystem through build-time interposition, and sampled paths are cross-checked step by step against it on every run."
CLAIMED = {
 "C01": dict(text="Every feasible path of the real codec/block/table writer and reader inside the harness bounds is executed symbolically; the round-trip assertions are discharged by z3 for all values of the symbolic payload bytes, update indices, limits and configurations (bounds per harness in evidence). Bounded model checking: exhaustive inside the bounds, silent outside.", ref="5/C01"),
 "C02": dict(text="The seek key (every byte and every length within the bound, for reflogs also every 64-bit update index) is symbolic; the real writer builds the table and its indexes, the real reader seeks, and the suffix-of-scan oracle is asserted on every path. Exhaustive over the key space for the listed table shapes (0..3 index levels, multi-block top level, sections following an index), silent outside.", ref="5/C02"),
 "C03": dict(text="The real merge code (priority queue, shadow skipping, deletion suppression, seek) runs over stub tables holding every subset/multiplicity of a small key universe with symbolic payloads and a fully symbolic seek key; the newest-wins overlay model is asserted on every path. Real tables under the merge are exercised by C07/C11.", ref="5/C03"),
 "C07": dict(text="Stack.writeCompact is executed symbolically on in-memory stacks of tables written by the real writer, for every choice of table contents from a small universe (creates, updates, deletions, symrefs, peeled refs, reflog entries and reflog deletions) and every contiguous range; the stack view before, after and after a nested compaction is compared with the overlay model. The filesystem path of compaction is covered by the stack checks (C04/C06).", ref="5/C07"),
 "C11": dict(text="RefsFor on real tables (indexed, unindexed, omitted position lists, multi-block object index) and on merged stacks is compared with a filter of the scan, with object ids symbolic in the bytes that decide the abbreviated id length, for every query class (present, peeled, absent).", ref="5/C11"),
 "C12": dict(text="One inductive step of the name validator from an arbitrary conflict-free live set (menu of prefix-related names) and an arbitrary transaction of additions and deletions; validateRefname on all short byte strings. Histories of any length are covered as long as the live set stays within the bound.", ref="5/C12"),
 "C13": dict(text="writeCompact with a symbolic expiry configuration (three arbitrary 64-bit limits) over stacks with symbolic entry times: the surviving entries are asserted equal to the filter model field by field and the refs unchanged, on every path.", ref="5/C13"),
 "C14": dict(text="An independent decoder written from the format description is executed symbolically on the bytes the real writer emits (symbolic small tables and concrete multi-level shapes); every structural requirement of the format is an assertion, and the decoded records must equal the input. Symmetric writer/reader changes that the repo's own round-trip cannot see are caught here.", ref="5/C14"),
 "C17": dict(text="log2 for all 64-bit values; the segment chooser on all size vectors up to length 5/6 with symbolic mantissas per size class; the depth and rewrite bounds for N identical-size transactions under the additive size model with the size symbolic. Real-payload workloads in the thousands are outside reach (stated).", ref="5/C17"),
 "C04": dict(text="The real stack code of 2-3 handles runs on the modelled filesystem; the symbolic executor case-splits every schedule within the context bound (preemption at every visible filesystem step), and the final view of a fresh handle is compared with the model of the committed transactions (commit order observed at the renames onto tables.list). Exhaustive inside the bound (handles, operations, preemptions), silent outside.", ref="5/C04", note=FSNOTE),
 "C05": dict(text="A list-integrity monitor (independent of reftable's code) runs after every filesystem step of every schedule of the C04 scenarios and of two disjoint compactions racing: every table named by tables.list exists, is complete and ordered; the directory opens at the end.", ref="5/C05", note=FSNOTE),
 "C06": dict(text="One process is abandoned immediately before every filesystem step (visible or private) of every operation kind on stacks of 1..3 tables; a fresh handle must open and show exactly the previous or the next state. Exhaustive over crash points within the listed operations.", ref="5/C06", note=FSNOTE),
 "C08": dict(text="A lock-ownership monitor runs in contending scenarios of 2 and 3 handles over every schedule within the context bound: a *.lock path is created only when absent and removed/renamed only by its creator; O_EXCL is honoured as passed by the code.", ref="5/C08", note=FSNOTE),
 "C09": dict(text="Every sequential history (within the bound) in which a handle becomes stale through another handle's additions/compactions/expiry, followed by every kind of write attempt through the stale handle: error class, unchanged directory, refreshed handle, fresh update index and successful retry are asserted.", ref="5/C09", note=FSNOTE),
 "C10": dict(text="A reader handle reloads and scans while writers add and compact, for every schedule within the context bound: every scan must succeed and show one committed snapshot (all of a transaction or none of it).", ref="5/C10", note=FSNOTE),
 "C16": dict(text="Residue check at quiescence over the concurrent scenarios of C04 and over sequential failure paths (failing write function, rejected limits, stale Add, empty Add, Clean/Close on empty and non-empty stacks and after another process was abandoned mid-Add): the directory holds exactly tables.list and the tables it names, and listed tables are never removed.", ref="5/C16", note=FSNOTE),
 "C19": dict(text="Sufficient frame condition decided over all paths: everything reachable from the shared Reader / Merged (memory- and file-backed) is marked shared, a mixed read workload with a symbolic lookup key is run twice, and any store, map update, in-place append or copy into shared state, or non-positional use of a shared descriptor, is a violation (unless under a mutex that is part of the shared state). No shared write on any path implies no data race between concurrent readers and interleaving-independent results; goroutine schedules themselves are not explored. Counterexamples are confirmed by running the two calls in two goroutines under the Go race detector.", ref="5/C19", note=FSNOTE),
 "C15": dict(text="Tables and stack directories in both directions, for sequential use (the two implementations take turns; a Go and a C process preempting each other, and crashes of the C side, are not explored). /repo/c (all but tests and dump.c) and the C-side harness code harness/cshim.c are compiled with clang -O1 to LLVM IR and linked on every run; the IR is interpreted symbolically by engine/llir.go, which shares terms, solver and exploration with the Go executor. Tables written by the Go writer or by the C writer (small tables with symbolic names/values/indices of every record kind; nine shaped tables with multi-level ref/object/log indexes; a log block deflate cannot shrink) are read by both readers - full scans, SeekRef/SeekLog with a symbolic key, RefsFor - and the canonical record streams are asserted identical to each other and to the records given to the writer. Stack directories: the C stack's file-system calls run on the same model file system as the Go stack; after 1..4 alternating transactions / compactions by either implementation both merged views are asserted identical and equal to what the transactions say. The leaf codec kernels (varint, key prefix compression, ref value encoding) are additionally asserted byte-identical. C memory faults (out of bounds, NULL, use after free, abort) on the way are violations.", ref="5/C15 and 11.5", note=BASE_NOTE + " Trusted additionally: the LLVM-IR front end (llir.go: byte-granular bounds-checked objects, vtables and indirect calls, libc/zlib models), clang's IR as the meaning of the C code. Counterexamples are confirmed by running the natively compiled C library with the same harness code under AddressSanitizer.", technique="bounded symbolic execution of Go SSA and of clang's LLVM IR of the C library into one SMT query per path (z3), differential assertions between the two implementations"),
 "C18": dict(text="Every decoder entry point is run on an arbitrary (fully symbolic) buffer of bounded length; index/slice/nil/divide/allocation panics and step-budget overruns are implicit assertions decided by z3 on every path. Hostile deflate streams and longer files are outside the bound.", ref="5/C18"),
}
NOT_YET = "check not built yet in this session (work in progress); planned per DESIGN.md section 5"
NA = {}
ALL = ["C%02d" % i for i in range(1, 20)]
def main():
    checks = []
    for pid in ALL:
        if pid not in CLAIMED: continue
        c = CLAIMED[pid]
        checks.append({
            "property_id": pid,
            "quick_cmd": "./check %s --tier quick" % pid,
            "thorough_cmd": "./check %s --tier thorough" % pid,
            "evidence_file": "/verif/evidence/%s.json" % pid,
            "replay_cmd_template": "./check replay {path}",
            "engine": "symgo",
            "level_claimed": {"category": "model_checking", "text": c["text"], "design_ref": "DESIGN.md section " + c["ref"]},
            "level_note": c.get("note", BASE_NOTE),
            "technique": c.get("technique", TECH),
        })
    na = [{"property_id": p, "reason": NA.get(p, NOT_YET)} for p in ALL if p not in CLAIMED]
    m = {
        "version": 1,
        "setup_cmd": "./setup.sh",
        "hooks": {"guard": "verif", "enable": "harness files (//go:build verif) are injected by go/packages Overlay / go test -overlay with -tags verif; nothing is written to /repo",
                  "baseline_off_cmd": "cd /repo && GOFLAGS=-mod=mod GOPROXY=off go test -json -vet=off -count=1 -timeout 25m ./...",
                  "source_commits": [], "add_only": True},
        "engines": [{"name": "symgo", "path": "/verif/engine", "serves_properties": sorted(CLAIMED), "kind_free_text": "own path-forking symbolic executor for go/ssa, SMT-LIB2 to z3 (cvc5 for cross-checks), native replay through go test -overlay"}],
        "checks": checks,
        "not_applicable": na,
        "notes": "Exit codes: 0 held (possibly KNOWN-FINDING lines), 1 VIOLATION confirmed natively, 2 inconclusive (cut path, solver unknown, unconfirmed counterexample). See DESIGN.md.",
    }
    json.dump(m, open(os.path.join(HERE, "MANIFEST.json"), "w"), indent=1)
    print("wrote MANIFEST.json: %d checks, %d not_applicable" % (len(checks), len(na)))
main()
