#!/bin/bash
# usage: tools/seedeval.sh <src-dir-with-patch.diff-demo_test.go-notes.md> <seed-id e.g. C04-1> <property> [more properties to run...]
# 1. confirms in a scratch worktree that the change compiles, passes the pinned suite, and that the demo fails with it / passes without it
# 2. applies the change to /repo, runs the quick checks of the given properties, undoes it straight afterwards
# 3. stores patch, demo and meta.json under /verif/seeded/<seed-id>/
set -u
src="$1"; id="$2"; shift 2
props="$@"
export GOFLAGS=-mod=mod GOPROXY=off GOSUMDB=off GOTOOLCHAIN=local
V=/verif
out=$V/seeded/$id
mkdir -p $out
cp "$src/patch.diff" $out/patch.diff
cp "$src/demo_test.go" $out/demo_test.go
[ -f "$src/notes.md" ] && cp "$src/notes.md" $out/notes.md
wt=$(mktemp -d /tmp/seedwt.XXXXXX)
git -C /repo worktree add -q --detach $wt HEAD
suite="?"; demo_with="?"; demo_without="?"
DEMOFLAGS=""; case "$id" in *C19*) DEMOFLAGS="-race";; esac
( cd $wt && git apply $out/patch.diff ) || { echo "patch does not apply"; git -C /repo worktree remove --force $wt; exit 2; }
( cd $wt && timeout 600 go test -vet=off -count=1 ./... >/tmp/seed_suite.out 2>&1 ) && suite=pass || suite=FAIL
cp $out/demo_test.go $wt/zz_seed_demo_test.go
( cd $wt && timeout 600 go test $DEMOFLAGS -vet=off -count=1 -run 'TestSeed' . >/tmp/seed_demo1.out 2>&1 ) && demo_with=pass || demo_with=fail
( cd $wt && git checkout -q -- . )
( cd $wt && timeout 600 go test $DEMOFLAGS -vet=off -count=1 -run 'TestSeed' . >/tmp/seed_demo2.out 2>&1 ) && demo_without=pass || demo_without=fail
git -C /repo worktree remove --force $wt
echo "suite-with-change=$suite demo-with-change=$demo_with demo-without-change=$demo_without"
results=""
if [ "$suite" = pass ] && [ "$demo_with" = fail ] && [ "$demo_without" = pass ]; then
  git -C /repo apply $out/patch.diff
  for p in $props; do
    ( cd $V && timeout 1800 ./check $p --tier quick > /tmp/seed_check_$p.out 2>&1 ); rc=$?
    v=$(grep -c '^VIOLATION' /tmp/seed_check_$p.out)
    first=$(grep -m1 -A1 '^VIOLATION' /tmp/seed_check_$p.out | tail -1 | cut -c1-160)
    echo "  check $p: exit=$rc violations=$v $first"
    results="$results{\"property\":\"$p\",\"exit\":$rc,\"violation_lines\":$v},"
  done
  git -C /repo checkout -- .
  # evidence files were rewritten by runs on the changed tree: restore the committed ones
  git -C $V checkout -- evidence 2>/dev/null
fi
python3 - "$out" "$id" "$suite" "$demo_with" "$demo_without" "[${results%,}]" "$props" <<'PY'
import json,sys
out,id,suite,dw,dwo,res,props=sys.argv[1:8]
prop=[p for p in id.split('-') if p.startswith('C') and p[1:].isdigit()][0]
meta={"seed":id,"breaks_property":prop,"suite_with_change":suite,"demo_with_change":dw,"demo_without_change":dwo,
"checks_run":json.loads(res),"what_i_ran":"tools/seedeval.sh: scratch worktree of /repo HEAD: git apply patch.diff; go test -vet=off -count=1 ./... ; demo copied in as zz_seed_demo_test.go and run with -run TestSeed with and without the change; then git -C /repo apply, ./check <property> --tier quick for: "+props+", git -C /repo checkout -- ."}
try:
    meta["needs_to_manifest"]=open(out+"/notes.md").read()
except Exception: pass
json.dump(meta,open(out+"/meta.json","w"),indent=1)
PY
