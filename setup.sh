#!/bin/bash
# Builds the symbolic engine from /verif/engine (offline; x/tools v0.29.0 from the module cache).
set -e
cd "$(dirname "$0")/engine"
export GOFLAGS=-mod=mod GOPROXY=off GOSUMDB=off GOTOOLCHAIN=local
mkdir -p ../bin ../evidence
go build -o ../bin/symgo .
echo "built $(cd ..; pwd)/bin/symgo"
